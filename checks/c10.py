"""C10 — suggested error decompositions are sound.
Tie O over the real ErrorAnalyzer: the decomposed model is read back, every error's components are XORed, and the resulting
mechanism list is compared (after the canonical merge justified by Decomp.v) with the model produced without decomposition for
the same circuit and flags; component sizes and presence of components are checked per flag combination."""
import json

from vlib import core, demtext, gatetable, gencirc, stimtext
from vlib.stimtext import Instr, T
from checks import c03


def ndet(s):
    return sum(1 for t in s if t[0] == 'D')


def rounds_circuit(rng):
    """stabilizer-measurement rounds on a line of data qubits with random noise: many detectors, errors touching 1-8 of them"""
    nd = rng.choice([2, 3, 4, 5])
    basis = rng.choice(['Z', 'X'])
    rounds = rng.choice([1, 2, 3])
    data = list(range(0, 2 * nd, 2))
    anc = list(range(1, 2 * nd - 1, 2))
    out = [Instr('R' if basis == 'Z' else 'RX', [], [T('q', q) for q in data]), Instr('R', [], [T('q', q) for q in anc])]

    def noise():
        k = rng.random()
        if k < 0.25:
            a, b = rng.sample(data + anc, 2)
            return Instr('DEPOLARIZE2', [rng.choice([0.001, 0.01])], [T('q', a), T('q', b)])
        if k < 0.4:
            a, b = rng.sample(data + anc, 2)
            ps = [0.0] * 15
            for _ in range(rng.choice([1, 2, 4])):
                ps[rng.randrange(15)] = rng.choice([0.001, 0.002])
            return Instr('PAULI_CHANNEL_2', ps, [T('q', a), T('q', b)])
        if k < 0.6:
            qs = rng.sample(data + anc, rng.choice([2, 3, min(4, len(data + anc))]))
            return Instr('E', [rng.choice([0.001, 0.01])], [T('pauli', q, pauli=rng.choice('XYZ')) for q in qs])
        if k < 0.8:
            return Instr('DEPOLARIZE1', [rng.choice([0.001, 0.01])], [T('q', q) for q in rng.sample(data + anc, rng.choice([1, 2]))])
        return Instr(rng.choice(['X_ERROR', 'Z_ERROR', 'Y_ERROR']), [rng.choice([0.001, 0.01])], [T('q', rng.choice(data + anc))])

    body = []
    for _ in range(rng.choice([0, 1, 2])):
        body.append(noise())
    for a in anc:
        if basis == 'Z':
            body.append(Instr('CX', [], [T('q', a - 1), T('q', a), T('q', a + 1), T('q', a)]))
        else:
            body.append(Instr('H', [], [T('q', a)]))
            body.append(Instr('CX', [], [T('q', a), T('q', a - 1), T('q', a), T('q', a + 1)]))
            body.append(Instr('H', [], [T('q', a)]))
        if rng.random() < 0.5:
            body.append(noise())
    for _ in range(rng.choice([0, 1, 2])):
        body.append(noise())
    margs = [rng.choice([0.001, 0.01])] if rng.random() < 0.4 else []
    body.append(Instr('MR', margs, [T('q', a) for a in anc]))
    na = len(anc)
    first = list(body) + [Instr('DETECTOR', [k, 0], [T('rec', na - k)]) for k in range(na)]
    later = list(body) + [Instr('DETECTOR', [k, 1], [T('rec', na - k), T('rec', 2 * na - k)]) for k in range(na)]
    out += first
    if rounds > 1:
        if rng.random() < 0.5:
            out.append(Instr('REPEAT', body=later, reps=rounds - 1))
        else:
            for _ in range(rounds - 1):
                out += later
    out.append(Instr('M' if basis == 'Z' else 'MX', [], [T('q', q) for q in data]))
    for k in range(na):
        out.append(Instr('DETECTOR', [k, 2], [T('rec', nd - k), T('rec', nd - k - 1), T('rec', nd + na - k)]))
    out.append(Instr('OBSERVABLE_INCLUDE', [0], [T('rec', 1)]))
    if rng.random() < 0.4:
        out.append(Instr('OBSERVABLE_INCLUDE', [1], [T('rec', nd)]))
    return stimtext.circuit_text(out)


def web_circuit(rng):
    """data qubits in |0>, random Z-parity checks measured before and after random noise: one detector per check, so one-qubit
    errors touch 0-4 detectors and the components of one two-qubit channel mix single, pair and larger symptom sets"""
    n = rng.choice([3, 4, 5, 6])
    m = rng.choice([3, 4, 6, 8])
    checks = []
    for _ in range(m):
        checks.append(sorted(rng.sample(range(n), rng.choice([1, 1, 2, 2, 3]) if n >= 3 else 1)))

    def mpp():
        ts = []
        for c in checks:
            for k, q in enumerate(c):
                if k:
                    ts.append(T('comb'))
                ts.append(T('pauli', q, pauli='Z'))
        return Instr('MPP', [], ts)
    out = [Instr('R', [], [T('q', q) for q in range(n)]), mpp()]
    # a random Clifford V before the noise and its inverse after it: every one-qubit Pauli of a channel acts as a random multi-qubit
    # Pauli on the checks, so the 15 terms of a two-qubit channel have symptom masks spanned by four independent ones
    V = []
    if rng.random() < 0.75:
        for _ in range(rng.choice([2, 4, 8])):
            g = rng.choice(['H', 'S', 'CX', 'CZ', 'SQRT_X'])
            if g in ('CX', 'CZ'):
                a, b = rng.sample(range(n), 2)
                V.append((g, [a, b]))
            else:
                V.append((g, [rng.randrange(n)]))
    inv = {'H': 'H', 'S': 'S_DAG', 'CX': 'CX', 'CZ': 'CZ', 'SQRT_X': 'SQRT_X_DAG'}
    for g, qs in V:
        out.append(Instr(g, [], [T('q', q) for q in qs]))
    for _ in range(rng.choice([1, 2, 3, 4])):
        k = rng.random()
        if k < 0.4:
            a, b = rng.sample(range(n), 2)
            out.append(Instr('DEPOLARIZE2', [rng.choice([0.001, 0.01])], [T('q', a), T('q', b)]))
        elif k < 0.6:
            a, b = rng.sample(range(n), 2)
            ps = [rng.choice([0.0, 0.001, 0.002]) for _ in range(15)]
            out.append(Instr('PAULI_CHANNEL_2', ps, [T('q', a), T('q', b)]))
        elif k < 0.8:
            qs = rng.sample(range(n), rng.choice([2, 3]))
            out.append(Instr('E', [rng.choice([0.001, 0.01])], [T('pauli', q, pauli=rng.choice('XYZ')) for q in qs]))
        else:
            out.append(Instr('DEPOLARIZE1', [rng.choice([0.001, 0.01])], [T('q', rng.randrange(n))]))
    for g, qs in reversed(V):
        out.append(Instr(inv[g], [], [T('q', q) for q in qs]))
    out.append(mpp())
    for k in range(m):
        out.append(Instr('DETECTOR', [k], [T('rec', m - k), T('rec', 2 * m - k)]))
    out.append(Instr('M', [], [T('q', q) for q in range(n)]))
    out.append(Instr('OBSERVABLE_INCLUDE', [0], [T('rec', 1)]))
    if rng.random() < 0.5:
        out.append(Instr('OBSERVABLE_INCLUDE', [1], [T('rec', n), T('rec', 1)]))
    return stimtext.circuit_text(out)


def obs_alias_circuit(rng):
    """classical bit-flip webs on 3-5 qubits: every error is a set of X flips, every measurement a detector, two or three observables
    that are random parities of the measurements and whose indices differ by 32 (or lie anywhere below 64): hyper errors must
    be decomposed into edges whose observables XOR to the error's, which 32-bit observable masks would confuse"""
    n = rng.choice([3, 3, 4, 5])
    out = [Instr('R', [], [T('q', q) for q in range(n)])]
    for q in range(n):
        if rng.random() < 0.55:          # some qubits never fail alone: their edges are missing from the model
            out.append(Instr(rng.choice(['E', 'X_ERROR']), [rng.choice([0.125, 0.02, 0.001])], [T('pauli', q, pauli='X')] if False else [T('q', q)])
                       if False else Instr('X_ERROR', [rng.choice([0.125, 0.02, 0.001])], [T('q', q)]))
    for _ in range(rng.randint(1, 4)):
        k = rng.choice([2, 2, 3, 3, 4])
        qs = rng.sample(range(n), min(k, n))
        out.append(Instr('E', [rng.choice([0.0625, 0.01, 0.003])], [T('pauli', q, pauli='X') for q in qs]))
    out.append(Instr('M', [], [T('q', q) for q in range(n)]))
    # detectors: parities of one or two measurements, sometimes the same parity twice (so one fault fires two detectors)
    dets = []
    for _ in range(rng.randint(n, n + 2)):
        sub = sorted(rng.sample(range(n), rng.choice([1, 1, 2])))
        dets.append(sub)
        if rng.random() < 0.3:
            dets.append(sub)
    for k, sub in enumerate(dets):
        out.append(Instr('DETECTOR', [k], [T('rec', n - q) for q in sub]))
    a, b = rng.choice([(0, 32), (5, 37), (33, 1), (32, 0), (31, 63), (1, 33), (7, 39)])
    ids = [a, b] + ([rng.choice([2, 34, 20])] if rng.random() < 0.3 else [])
    for i in ids:
        sub = [q for q in range(n) if rng.random() < 0.5] or [rng.randrange(n)]
        out.append(Instr('OBSERVABLE_INCLUDE', [i], [T('rec', n - q) for q in sub]))
    return stimtext.circuit_text(out)


def obs_alias_template(rng):
    """qubit A fails alone (edge S + L_a); qubit B never fails alone but fires the same detectors S with L_b; qubit C fails alone
    (edge T); the correlated fault X_B X_C is the hyper error S + T + L_b, for which no sound decomposition into known edges exists
    unless L_a and L_b are confused"""
    a, b = rng.choice([(0, 32), (5, 37), (33, 1), (32, 0), (31, 63), (1, 33), (7, 39), (0, 1), (2, 5)])
    extra = rng.choice([0, 0, 1, 2])
    n = 3 + extra
    A, B, C = rng.sample(range(n), 3)
    out = [Instr('R', [], [T('q', q) for q in range(n)])]
    errs = [Instr('X_ERROR', [rng.choice([0.125, 0.01])], [T('q', A)]), Instr('X_ERROR', [rng.choice([0.25, 0.02])], [T('q', C)]),
            Instr('E', [rng.choice([0.0625, 0.003])], [T('pauli', B, pauli='X'), T('pauli', C, pauli='X')])]
    for q in range(n):
        if q not in (A, B, C) and rng.random() < 0.7:
            errs.append(Instr('X_ERROR', [0.01], [T('q', q)]))
    rng.shuffle(errs)
    out += errs
    out.append(Instr('M', [], [T('q', q) for q in range(n)]))
    dets = [[A, B]] * rng.choice([1, 2, 2]) + [[C]]
    for q in range(n):
        if q not in (A, B, C):
            dets.append([q])
    rng.shuffle(dets)
    for k, sub in enumerate(dets):
        out.append(Instr('DETECTOR', [k], [T('rec', n - q) for q in sub]))
    out.append(Instr('OBSERVABLE_INCLUDE', [a], [T('rec', n - A)]))
    out.append(Instr('OBSERVABLE_INCLUDE', [b], [T('rec', n - B)]))
    return stimtext.circuit_text(out)


def zero_edge_template(rng):
    """a hyper error whose only graphlike decomposition would use an edge that exists at probability 0 only (a zero-strength noise
    instruction): with remnant-edge blocking that edge is not a known edge"""
    zero = rng.choice(['X_ERROR(0) 0', 'DEPOLARIZE1(0) 0', 'PAULI_CHANNEL_1(0, 0, 0) 0', 'X_ERROR(0) 0 1', 'DEPOLARIZE2(0) 0 1'])
    other = rng.choice(['X_ERROR(0.01) 1', 'X_ERROR(0) 1', '', 'X_ERROR(0.02) 1\nX_ERROR(0.03) 0' if rng.random() < 0.3 else 'X_ERROR(0.01) 1'])
    oa, ob = rng.choice([(0, 3), (0, 1), (2, 5), (0, 0)])
    lines = ['R 0 1', zero, other, 'E(%s) X0 X1' % rng.choice(['0.25', '0.125', '0.01']), 'M 0 1',
             'DETECTOR rec[-2]', 'DETECTOR rec[-2]', 'DETECTOR rec[-1]', 'DETECTOR rec[-1]',
             'OBSERVABLE_INCLUDE(%d) rec[-2]' % oa, 'OBSERVABLE_INCLUDE(%d) rec[-1]' % ob]
    if rng.random() < 0.3:
        lines = lines[:1] + ['REPEAT 2 {'] + ['    ' + l for l in lines[1:9] if l] + ['}'] + lines[9:]
    return '\n'.join(l for l in lines if l)


def gen_code_circuit(rng):
    code, task = rng.choice([('surface_code', 'rotated_memory_x'), ('surface_code', 'unrotated_memory_z'), ('repetition_code', 'memory'),
                             ('color_code', 'memory_xyz')])
    d = 3 if code != 'repetition_code' else rng.choice([3, 4])
    if code == 'surface_code' and task.startswith('unrotated'):
        d = 2
    args = ['gen', '--code', code, '--task', task, '--distance', str(d), '--rounds', str(rng.choice([1, 2, 3]))]
    for k in ['--after_clifford_depolarization', '--before_round_data_depolarization', '--before_measure_flip_probability', '--after_reset_flip_probability']:
        if rng.random() < 0.6:
            args += [k, str(rng.choice([0.001, 0.01]))]
    rc, so, se = core.run_stim(args)
    if rc != 0:
        return None
    return so.decode()


def full_support_pc2(text, names):
    body = stimtext.parse(text, names)

    def go(l):
        for i in l:
            if i.name == 'REPEAT':
                go(i.body)
            elif names.get(i.name).name == 'PAULI_CHANNEL_2':
                i.args = [a if a > 0 else 0.0005 for a in i.args]
    go(body)
    return stimtext.circuit_text(body)


CORPUS = [
    # D25
    ('R 0 1\nPAULI_CHANNEL_2(0, 0, 0, 0, 0, 0.002, 0, 0, 0, 0, 0, 0, 0, 0, 0) 0 1\nM 0 1\nDETECTOR rec[-2]\nDETECTOR rec[-1]', 0, 0, 1),
]


def run(rep, tier):
    quick = tier == 'quick'
    svh = core.Svh('o1', timeout=300)
    gates, hashes = gatetable.regenerate(svh)
    names = stimtext.Names(gates)
    from checks import c11
    rep.set_proof(c11.prove_shared(['Properties_C10.v']))
    rep.trusted += ['Coq 8.16.1 kernel', 'vlib/demtext.py (model reader, merge)', 'harness/c03.cc (analyze)',
                    'floating point comparison of merged probabilities (relative 1e-9)']
    rep.assumptions += ['the decomposition heuristics are not modelled in Coq: their output is checked against the stated invariants for every generated circuit',
                        'the undecomposed model itself is tied to the specification by C03']
    rng = rep.rng()
    N = 1500 if quick else 16000
    ncolor_fail = 0
    import os
    extra = json.load(open(os.path.join(core.VERIF, 'corpus', 'C10.json')))
    corpus = CORPUS + [(e['circuit'], e['fold_loops'], e['ignore_decomposition_failures'], e['block_decomposition_from_introducing_remnant_edges']) for e in extra]
    for it in range(-len(corpus), N):
        k = rng.random()
        if it < 0:
            text, cfold, cign, cblock = corpus[it + len(corpus)]
            src = 'corpus'
        elif k < 0.12:
            text = obs_alias_template(rng) if rng.random() < 0.5 else obs_alias_circuit(rng)
            src = 'obs-alias'
        elif k < 0.17:
            text = zero_edge_template(rng)
            src = 'zero-edge'
        elif k < 0.3:
            text = web_circuit(rng)
            src = 'web'
        elif k < 0.55:
            text = rounds_circuit(rng)
            src = 'rounds'
        elif k < 0.7:
            text = gen_code_circuit(rng)
            src = 'gen'
            if text is None:
                continue
        else:
            prof = gencirc.Profile(noise=True, measure_noise=True, heralded=False, annotations=False, len_range=(6, 24), n_choices=[2, 3, 4, 5])
            n, body = gencirc.gen_circuit(rng, gates, prof)
            body = c03.restrict_noise(rng, body, 'approx')
            nq = max(stimtext.num_qubits(body), 1)
            ir0 = stimtext.to_spec(stimtext.flatten(body), names, nsweep=0, noise=False)
            so = core.run_svm(stimtext.spec_cmd(nq, ir0) + '\n', timeout=600)[0]
            if so.startswith('EXN'):
                continue
            body = c03.add_deterministic_annotations(rng, body, stimtext.parse_spec_out(so)['rec'], 0)
            text = stimtext.circuit_text(body)
            src = 'random'
        if it >= 0 and rng.random() < 0.35:
            # observable indices up to 63, including pairs that differ by 32 (bit masks of observables must be 64 bits wide)
            a, b = rng.choice([(0, 32), (5, 37), (33, 1), (32, 0), (31, 63), (40, 8), (3, 7), (62, 30), (63, 31)])   # the decomposer documents a limit of 64 observables
            text = text.replace('OBSERVABLE_INCLUDE(0)', 'OBSERVABLE_INCLUDE(@A)').replace('OBSERVABLE_INCLUDE(1)', 'OBSERVABLE_INCLUDE(@B)')
            text = text.replace('OBSERVABLE_INCLUDE(@A)', 'OBSERVABLE_INCLUDE(%d)' % a).replace('OBSERVABLE_INCLUDE(@B)', 'OBSERVABLE_INCLUDE(%d)' % b)
        fold = int(rng.random() < 0.5)
        ign = int(rng.random() < 0.4)
        block = int(rng.random() < 0.4)
        if src == 'zero-edge' and rng.random() < 0.8:
            block = 1
        if it < 0:
            fold, ign, block = cfold, cign, cblock
        elif block:
            # known finding D25: the decomposition inside one PAULI_CHANNEL_2 splits a two-qubit term into its one-qubit parts even when
            # those parts have probability 0 (so occur nowhere else), blocking or not. The random stream gives such channels full support
            # when blocking is on; the failing input itself is replayed from the corpus.
            text = full_support_pc2(text, names)
        flags = {'fold_loops': fold, 'ignore_decomposition_failures': ign, 'block_decomposition_from_introducing_remnant_edges': block}
        inp = {'circuit': text, **flags}
        entry = 'ErrorAnalyzer::circuit_to_detector_error_model'
        try:
            und = svh.request('analyze', [0, fold, 0, 1.0, 0, 0, 1], text)
            dec = svh.request('analyze', [1, fold, 0, 1.0, ign, block, 1], text)
        except core.Crash as e:
            rep.violation(entry, 'crash', inp, str(e) + e.stderr[-800:])
            svh = core.Svh('o1', timeout=300)
            continue
        if und and und[-1].startswith('ERR'):
            continue          # not analyzable at all (gauge etc.): outside this property
        if dec and dec[-1].startswith('ERR'):
            msg = dec[-1]
            if ign:
                rep.violation(entry, 'reject-valid', inp, 'decomposition raised although failures were to be ignored: ' + msg[:300])
            elif 'decompos' not in msg.lower():
                rep.violation(entry, 'reject-valid', inp, 'decomposition raised an undocumented error: ' + msg[:300])
            else:
                rep.count(('c10-documented-failure', text, fold, block), nontrivial=False)
            continue
        U = demtext.merged(demtext.flatten(demtext.parse('\n'.join(und[1:])))[0])
        if it >= 0:
            # known finding D26: components are matched by detectors only, so models in which two errors have the same detectors and
            # different observables (an undetectable logical error exists) decompose ambiguously; the random stream skips them
            seen = {}
            amb = False
            for sset in U:
                dpart = frozenset(t for t in sset if t[0] == 'D')
                if dpart in seen and seen[dpart] != sset:
                    amb = True
                    break
                seen[dpart] = sset
            if amb or any(not any(t[0] == 'D' for t in sset) for sset in U):
                rep.count(('c10-skipped-ambiguous', text), nontrivial=False)
                continue
        D = demtext.flatten_components(demtext.parse('\n'.join(dec[1:])))
        multi = 0
        totals = []
        allcomps = {}
        for idx, (p, comps) in enumerate(D):
            tot = set()
            for c in comps:
                tot ^= set(c)
                allcomps.setdefault(frozenset(t for t in c if t[0] == 'D'), set()).add(idx)
            totals.append((p, frozenset(tot)))
            if len(comps) > 1:
                multi += 1
        rep.count(('c10', text, fold, ign, block), nontrivial=multi > 0)
        # (1) read without separators = the undecomposed model
        Dm = demtext.merged(totals)
        keys = set(U) | set(Dm)
        for s in keys:
            a, b = U.get(s, 0.0), Dm.get(s, 0.0)
            if abs(a - b) > 1e-9 * max(a, b, 1e-300) + 1e-15:
                rep.violation(entry, 'wrong-result', inp, 'error %s has probability %.12g without decomposition but its decomposed forms XOR/merge to %.12g' % (sorted(s), a, b), a, b)
                break
        # (2) components are graphlike unless failures are ignored
        for p, comps in D:
            big = [sorted(c) for c in comps if ndet(c) > 2]
            if big and not ign:
                rep.violation(entry, 'wrong-result', inp, 'component %s has more than two detectors' % big[0])
                break
            if big and ign and len(comps) > 1:
                # an error that failed to decompose is documented to be inserted undecomposed
                rep.violation(entry, 'wrong-result', inp, 'error with a non-graphlike component was still split: %s' % [sorted(c) for c in comps])
                break
        # (3) with remnant-edge blocking every component of a decomposed error is present elsewhere
        if block:
            for idx, (p, comps) in enumerate(D):
                if len(comps) < 2:
                    continue
                for c in comps:
                    key = frozenset(t for t in c if t[0] == 'D')
                    if not key:
                        continue
                    if not (allcomps.get(key, set()) - {idx}):
                        rep.violation(entry, 'wrong-result', inp, 'component %s of error %s appears nowhere else in the model' % (sorted(c), [sorted(x) for x in comps]))
                        break
                else:
                    continue
                break
    rep.sample({'circuit': text, **flags})
    svh.close()
    rep.cov['rule'] = ('random Z-parity-check webs with random two-qubit channels (30%), stabilizer-measurement rounds with random 1-4 qubit channels (25%), stim gen codes with noise (15%), random annotated noisy circuits (30%) x '
                       'fold_loops x ignore_decomposition_failures x block_decomposition_from_introducing_remnant_edges. Non-trivial = the decomposed '
                       'model contains at least one error with a separator.')


def replay(path):
    r = json.load(open(path))
    print(json.dumps(r, indent=1))
    return 0
