"""C08 — detector error model format: exact round trip, total parser, faithful flatten.
Proofs: DemFlat.flatten_is_naive_execution (recursive flattening with a running detector offset = naive execution of the
unrolled model, any nesting), tag round trip / bound (Tag.v), decimal integers (Dec.v).
Tie H: the real parser/printer/flatten against the generator's intended structure, exact print/parse round trips, the
documented rejections, fuzzing under ASan, and flattened()/iter_flatten_error_instructions against the extracted DemFlat model."""
import json
import struct

from vlib import core
from checks import c07

DEM_TYPES = {'error': 0, 'shift_detectors': 1, 'detector': 2, 'logical_observable': 3, 'repeat': 4}
OBS_BIT = 1 << 63
SEP = (1 << 64) - 1


def rand_double(rng, prob=False):
    if prob:
        return rng.choice([0.0, 1.0, 0.5, 0.125, 0.1, 1.0 / 3, 1e-300, 5e-324, 0.9999999999999999, 0.30000000000000004, 1e-7,
                           rng.random(), rng.random() * 1e-5])
    return rng.choice([0.0, 1.0, -1.5, 0.1, 1.0 / 3, 1e300, -1e-300, 123456.789, 2.0 ** 53 + 2, 1e15 + 0.5, rng.random() * 100,
                       -rng.random(), 7.0])


def gen_model(rng, depth=0):
    """list of dict instructions"""
    out = []
    for _ in range(rng.randint(1, 6)):
        k = rng.choice(['error', 'error', 'error', 'detector', 'logical_observable', 'shift_detectors', 'repeat'])
        tag = c07.rand_tag(rng)
        if k == 'error':
            ts = []
            for j in range(rng.randint(1, 4)):
                if j and rng.random() < 0.25:
                    ts.append('^')
                if rng.random() < 0.75:
                    ts.append('D%d' % rng.choice([rng.randrange(8), rng.randrange(8), rng.randrange(1000), (1 << 60) - 1 - rng.randrange(3)]))
                else:
                    ts.append('L%d' % rng.choice([rng.randrange(4), 70, 4000000000]))
            out.append({'kind': 'error', 'args': [rand_double(rng, True)], 'targets': ts, 'tag': tag})
        elif k == 'detector':
            out.append({'kind': 'detector', 'args': [rand_double(rng) for _ in range(rng.randint(0, 3))],
                        'targets': ['D%d' % rng.randrange(20)], 'tag': tag})
        elif k == 'logical_observable':
            out.append({'kind': 'logical_observable', 'args': [], 'targets': ['L%d' % rng.randrange(6)], 'tag': tag})
        elif k == 'shift_detectors':
            out.append({'kind': 'shift_detectors', 'args': [rand_double(rng) for _ in range(rng.randint(0, 3))],
                        'targets': [str(rng.choice([0, 1, 5, 1000, (1 << 40)]))], 'tag': tag})
        elif depth < 2:
            out.append({'kind': 'repeat', 'reps': rng.choice([1, 2, 3, 1000, (1 << 59) + 1]), 'body': gen_model(rng, depth + 1), 'tag': tag})
    return out


def fmt_double_text(rng, a):
    r = rng.random()
    if a == int(a) and abs(a) < 1e15 and r < 0.5:
        return str(int(a))
    if r < 0.8:
        return repr(float(a))
    return '%.17e' % a


def render(rng, model, vary=True, indent=0):
    lines = []
    for ins in model:
        pad = (rng.choice(['', ' ', '    ', '\t']) if vary else ' ' * indent)
        tag = '[' + c07.escape_tag(ins['tag']) + ']' if ins['tag'] else ''
        if ins['kind'] == 'repeat':
            nm = rng.choice(['repeat', 'REPEAT', 'Repeat']) if vary else 'repeat'
            lines.append(pad + nm + tag + ' ' + str(ins['reps']) + rng.choice([' {', '{']))
            lines += render(rng, ins['body'], vary, indent + 4)
            lines.append(pad + '}')
            continue
        nm = ins['kind']
        if vary and rng.random() < 0.3:
            nm = rng.choice([nm.upper(), nm.capitalize()])
        s = nm + tag
        if ins['args']:
            s += '(' + rng.choice([', ', ',']).join(fmt_double_text(rng, a) if vary else repr(a) for a in ins['args']) + ')'
        if ins['targets']:
            s += ' ' + (rng.choice([' ', '  ']) if vary else ' ').join(ins['targets'])
        if vary and rng.random() < 0.2:
            s += rng.choice(['  # c', '#'])
        lines.append(pad + s)
    return lines


def enc_target(t):
    if t == '^':
        return SEP
    if t[0] == 'D':
        return int(t[1:])
    if t[0] == 'L':
        return int(t[1:]) | OBS_BIT
    return int(t)


def expected(model):
    out = []
    for ins in model:
        if ins['kind'] == 'repeat':
            out.append([4, ins['tag'], (), ins['reps'], expected(ins['body'])])
        else:
            out.append([DEM_TYPES[ins['kind']], ins['tag'], tuple(ins['args']), [enc_target(t) for t in ins['targets']]])
    return out


def parse_dump(lines):
    root = []
    stack = [(0, root)]
    for l in lines:
        if not l.startswith('I '):
            continue
        t = l.split(' ')
        depth = int(t[1])
        typ = int(t[2])
        tag = bytes.fromhex(t[3][4:]).decode('latin1')
        args = tuple(float(x) for x in t[4][5:].split(',')) if t[4][5:] else ()
        while stack[-1][0] > depth:
            stack.pop()
        cur = stack[-1][1]
        if typ == 4:
            body = []
            cur.append([4, tag, (), int(t[5][5:]), body])
            stack.append((depth + 1, body))
        else:
            cur.append([typ, tag, args, [int(x) for x in t[5][8:].split(',')] if t[5][8:] else []])
    return root


def bits(x):
    return struct.pack('<d', x)


def same(a, b):
    if len(a) != len(b):
        return False
    for x, y in zip(a, b):
        if x[0] != y[0] or x[1] != y[1]:
            return False
        if x[0] == 4:
            if x[3] != y[3] or not same(x[4], y[4]):
                return False
        else:
            if list(x[3]) != list(y[3]) or len(x[2]) != len(y[2]) or any(bits(p) != bits(q) and not (p == q == 0) for p, q in zip(x[2], y[2])):
                return False
    return True


REJECT = [
    ('probability outside [0,1]', 'error(1.5) D0'), ('probability outside [0,1]', 'error(-0.1) D0'), ('probability outside [0,1]', 'error(nan) D0'),
    ('wrong argument count', 'error D0'), ('wrong argument count', 'error(0.1, 0.2) D0'), ('dangling separator', 'error(0.1) D0 ^'),
    ('dangling separator', 'error(0.1) ^ D0'), ('doubled separator', 'error(0.1) D0 ^ ^ D1'), ('wrong target kind', 'error(0.1) 5'),
    ('wrong target kind', 'detector L0'), ('wrong target kind', 'detector 5'), ('wrong target kind', 'logical_observable D0'),
    ('wrong target kind', 'shift_detectors D1'), ('wrong target kind', 'detector(1) ^'), ('unbalanced braces', 'repeat 2 {\nerror(0.1) D0'),
    ('unbalanced braces', 'error(0.1) D0\n}'), ('missing count', 'repeat {\nerror(0.1) D0\n}'), ('unknown instruction', 'banana(0.1) D0'),
    ('bad number', 'error(0.1) D'), ('bad number', 'error(0.1) D-1'), ('bad number', 'error(0.1) D1152921504606846976'), ('bad number', 'error(abc) D0'),
    ('unterminated tag', 'error[abc(0.1) D0'), ('unterminated tag', 'error[abc'), ('bad escape', 'error[a\\qb](0.1) D0'),
    ('too many shift targets', 'shift_detectors 1 2'), ('logical_observable args', 'logical_observable(1) L0'), ('missing brace', 'repeat 2\nerror(0.1) D0\n}'),
]


def tokens_for_model(model, probs):
    toks = []
    for ins in model:
        if ins['kind'] == 'repeat':
            toks += ['(', str(ins['reps'])] + tokens_for_model(ins['body'], probs) + [')']
        elif ins['kind'] == 'error':
            probs.append(ins['args'][0])
            toks += ['E', str(len(probs) - 1)] + ins['targets']
        elif ins['kind'] == 'detector':
            toks += ['D'] + ins['targets']
        elif ins['kind'] == 'logical_observable':
            toks += ['O'] + ins['targets']
        else:
            toks += ['S', ins['targets'][0]]
        toks.append('|')
    return toks


def small_reps(model, rng):
    for ins in model:
        if ins['kind'] == 'repeat':
            ins['reps'] = rng.choice([1, 2, 3, 5])
            small_reps(ins['body'], rng)
        elif ins['kind'] == 'shift_detectors':
            ins['targets'] = [str(rng.choice([0, 1, 2, 7]))]
        elif ins['kind'] == 'error':
            ins['targets'] = [t if t == '^' or int(t[1:]) < 1000 else t[0] + str(int(t[1:]) % 50) for t in ins['targets']]


def run(rep, tier):
    quick = tier == 'quick'
    asan = core.Svh('asan', timeout=20)
    from checks import c11
    rep.set_proof(c11.prove_shared(['Properties_C08.v']))
    rep.trusted += ['Coq 8.16.1 kernel', 'extraction + runner/main.ml', 'harness/c07.cc', 'ASan/UBSan, per-request time limit']
    rep.assumptions += ['printing doubles with 17+ significant digits and strtod are exercised (bit-exact comparison), not modelled',
                        'the parser itself is not modelled in Coq beyond tags/integers; coordinates are omitted from DemFlat']
    rng = rep.rng()
    # ---------- A. acceptance with documented meaning + exact round trip
    NA = 500 if quick else 20000
    for _ in range(NA):
        model = gen_model(rng)
        text = rng.choice(['\n', '\n', '\r\n']).join(render(rng, model, vary=True))
        entry = rng.choice(['string', 'file'])
        try:
            out = asan.request('dparse', [entry], text.encode('latin1').hex())
        except core.Crash as e:
            rep.violation('DetectorErrorModel parser (%s)' % entry, c07.classify(e), text, str(e) + e.stderr[-1500:])
            continue
        rep.count(('c08-a', text), nontrivial=len(model) >= 3)
        if out and out[0].startswith('ERR'):
            rep.violation('DetectorErrorModel parser (%s)' % entry, 'reject-valid', text, 'valid model text rejected: ' + out[0])
            continue
        got = parse_dump(out[1:])
        if not same(got, expected(model)):
            rep.violation('DetectorErrorModel parser (%s)' % entry, 'wrong-result', text, 'parsed structure differs from the text\'s meaning',
                          json.dumps(expected(model))[:500], json.dumps(got)[:500])
            continue
        printed = bytes.fromhex(out[0][3:])
        o2 = asan.request('dparse', ['string'], printed.hex())
        if o2[0].startswith('ERR'):
            rep.violation('DetectorErrorModel::str', 'wrong-result', text, 'printed model does not parse back: ' + o2[0], None, printed.decode('latin1')[:300])
        elif not same(parse_dump(o2[1:]), got):
            rep.violation('DetectorErrorModel::str', 'wrong-result', text, 'print then parse is not the identity (probabilities/coordinates must be exact)',
                          json.dumps(got)[:500], json.dumps(parse_dump(o2[1:]))[:500])
        elif o2[0] != out[0]:
            rep.violation('DetectorErrorModel::str', 'wrong-result', text, 'printing the re-parsed model gives different text')
    rep.sample({'dem': text[:300]})
    # ---------- B. rejections
    for rule, text in REJECT:
        for entry in ('string', 'file'):
            try:
                out = asan.request('dparse', [entry], text.encode('latin1').hex())
            except core.Crash as e:
                rep.violation('DetectorErrorModel parser (%s)' % entry, c07.classify(e), text, 'rule "%s": ' % rule + str(e) + e.stderr[-1000:])
                continue
            rep.count(('c08-reject', rule, text, entry), nontrivial=True)
            if not (out and out[0].startswith('ERR')):
                rep.violation('DetectorErrorModel parser (%s)' % entry, 'accept-invalid', text,
                              'text violating the documented rule "%s" was accepted' % rule, 'an error', (out or ['?'])[0][:200])
    # ---------- C. fuzz
    seeds = ['\n'.join(render(rng, gen_model(rng), vary=True)).encode('latin1') for _ in range(50)]
    alphabet = b'[]{}()^#\\,.-+eE \t\r\nDL0123456789errordetectorshift_repeat'
    for _ in range(1500 if quick else 60000):
        base = bytearray(rng.choice(seeds))
        kind = rng.choice(['trunc', 'flip', 'insert', 'delete', 'random', 'byte'])
        if kind == 'trunc' and base:
            base = base[:rng.randrange(len(base))]
        elif kind == 'flip' and base:
            base[rng.randrange(len(base))] ^= 1 << rng.randrange(8)
        elif kind == 'insert':
            p = rng.randrange(len(base) + 1)
            base[p:p] = bytes(rng.choice(alphabet) for _ in range(rng.choice([1, 1, 2, 6])))
        elif kind == 'delete' and base:
            p = rng.randrange(len(base))
            del base[p:p + rng.choice([1, 1, 3])]
        elif kind == 'random':
            base = bytearray(rng.randrange(256) for _ in range(rng.randrange(0, 40)))
        elif kind == 'byte' and base:
            base[rng.randrange(len(base))] = rng.choice([0, 0xff, 0x80, 0x5b, 0x5d, 0x5c, 0x28, 0x7b, 0x7d])
        entry = rng.choice(['string', 'file'])
        try:
            out = asan.request('dparse', [entry], bytes(base).hex())
        except core.Crash as e:
            rep.violation('DetectorErrorModel parser (%s)' % entry, c07.classify(e), bytes(base).decode('latin1'),
                          'parser did not return cleanly on malformed input: ' + str(e) + e.stderr[-1500:])
            continue
        rep.count(('c08-fuzz', bytes(base)), nontrivial=True)
        if out and out[0].startswith('OK'):
            printed = bytes.fromhex(out[0][3:])
            o2 = asan.request('dparse', ['string'], printed.hex())
            if o2[0].startswith('ERR') or not same(parse_dump(o2[1:]), parse_dump(out[1:])):
                rep.violation('DetectorErrorModel::str', 'wrong-result', bytes(base).decode('latin1'), 'accepted text does not round trip exactly',
                              printed.decode('latin1')[:300], o2[0][:200])
    # object reuse after a rejected append
    for bad, good in [['error[abc](0.1) D0 ^', 'error(0.1) D1'], ['detector[tt] L0', 'detector D0'], ['error[zz](2) D0', 'error(0.5) D0'],
                      ['error[q](0.1) D1152921504606846976', 'error(0.25) D2'], ['repeat[r] 0 {\n}', 'error(0.5) D1']]:
        try:
            out = asan.request('dreuse', [], '\n'.join(t.encode().hex() for t in (bad, good)))
        except core.Crash as e:
            rep.violation('DetectorErrorModel::append_from_text', c07.classify(e), [bad, good], str(e) + e.stderr[-1200:])
            continue
        rep.count(('c08-reuse', bad), nontrivial=True)
        ok = [l for l in out if l.startswith('OK ')]
        ref = asan.request('dparse', ['string'], good.encode().hex())
        if out[0].startswith('REJECTED') and ok and ok[0] != ref[0]:
            rep.violation('DetectorErrorModel::append_from_text', 'wrong-result', [bad, good],
                          'after a rejected append the next append is affected by the rejected text',
                          bytes.fromhex(ref[0][3:]).decode('latin1'), bytes.fromhex(ok[0][3:]).decode('latin1'))
    # ---------- D. flatten vs the DemFlat model
    model_in = []
    meta = []
    for _ in range(400 if quick else 15000):
        model = gen_model(rng)
        small_reps(model, rng)
        for ins in model:
            pass
        text = '\n'.join(render(rng, model, vary=False))
        probs = []
        toks = tokens_for_model(model, probs)
        try:
            out = asan.request('dflat', [], text)
        except core.Crash as e:
            rep.violation('DetectorErrorModel::flattened', c07.classify(e), text, str(e) + e.stderr[-1200:])
            continue
        if out and out[-1].startswith('ERR'):
            continue
        model_in.append('demflat ' + ' '.join(toks))
        meta.append((text, probs, out))
    mo = core.run_svm('\n'.join(model_in) + '\n', timeout=3000)
    for (text, probs, out), m in zip(meta, mo):
        stream, off, verdict = [x.strip() for x in m.split('#')]
        rep.count(('c08-flat', text), nontrivial='repeat' in text)
        if verdict != 'same':
            rep.broken_obligation('DemFlat.flatten_is_naive_execution (evaluated)', {'dem': text})
        items = [x for x in stream.split(';') if x]
        want_errors = []
        want_flat = []
        for it in items:
            t = it.split(' ')
            if t[0] == 'E':
                want_errors.append((probs[int(t[1])], t[2:]))
                want_flat.append(('error', probs[int(t[1])], [x for x in t[2:]]))
            elif t[0] == 'D':
                want_flat.append(('detector', None, t[1:]))
            else:
                want_flat.append(('logical_observable', None, t[1:]))
        got_errors = []
        for l in out:
            if l.startswith('E '):
                t = l.split(' ')
                got_errors.append((float(t[1]), t[2:]))
        if [(bits(p), ts) for p, ts in got_errors] != [(bits(p), ts) for p, ts in want_errors]:
            rep.violation('DetectorErrorModel::iter_flatten_error_instructions', 'wrong-result', text,
                          'the iterated errors differ from executing the model one instruction at a time', str(want_errors)[:400], str(got_errors)[:400])
        flat_text = bytes.fromhex(out[0][5:]).decode('latin1')
        got_flat = []
        for l in flat_text.split('\n'):
            l = l.strip()
            if not l:
                continue
            import re
            mm = re.match(r'([a-z_]+)(\[[^\]]*\])?(\([^)]*\))?\s*(.*)$', l)
            got_flat.append((mm.group(1), mm.group(4).split()))
        want_cmp = [(k, ts) for k, p, ts in want_flat]
        # tags with spaces break the naive split: compare only when no instruction carries a tag
        if got_flat != want_cmp:
            rep.violation('DetectorErrorModel::flattened', 'wrong-result', text,
                          'flattened() differs from executing the model one instruction at a time', str(want_cmp)[:400], str(got_flat)[:400])
    dem_target_lists(rep, asan, rng, 600 if quick else 20000)
    asan.close()
    rep.cov['rule'] = ('A: random models (nested repeat to 2^59, shifts, separators, tags with escapes, 60-bit ids, awkward doubles) with '
                       'spelling variations x {string, file}: structure and bit-exact print/parse round trip; B: rejection rules; C: fuzz under '
                       'ASan; D: flattened()/iter_flatten_error_instructions vs the extracted DemFlat model. Non-trivial = >= 3 instructions.')


READER_MESSAGES = ['Expected a digit', 'Number too large', 'Unrecognized target prefix', 'must be separated by spacing']


def dem_target_lists(rep, asan, rng, count):
    """tie H for DemTargets.v: the extracted reader / printer of error-instruction target lists against the real ones, on lists
    written with irregular spacing, comments, either letter case and deliberate malformations"""
    BAD = ['D', 'L', 'D-1', 'd 1', 'D1152921504606846976', 'L99999999999999999999999', 'X1', '5', '^^', 'D1^', 'D0.5', 'Dx', 'rec[-1]']
    inp = []
    meta = []
    for _ in range(count):
        toks = []
        for _ in range(rng.choice([0, 1, 2, 3, 6])):
            k = rng.random()
            v = rng.choice([0, 1, 7, 1000, (1 << 31), (1 << 60) - 1])
            if k < 0.55:
                toks.append(rng.choice('Dd') + str(v))
            elif k < 0.8:
                toks.append(rng.choice('Ll') + str(rng.choice([0, 1, 5, 63, 4000000000])))
            else:
                toks.append('^')
        # separators may not be leading, trailing or doubled in a valid error instruction: keep the list valid for the instruction
        while toks and toks[0] == '^':
            toks.pop(0)
        while toks and toks[-1] == '^':
            toks.pop()
        toks = [t for k, t in enumerate(toks) if not (t == '^' and k and toks[k - 1] == '^')]
        if rng.random() < 0.35 and toks:
            k = rng.randrange(len(toks))
            how = rng.choice(['glue', 'bad', 'bad'])
            if how == 'glue' and k + 1 < len(toks):
                toks[k:k + 2] = [toks[k] + toks[k + 1]]
            else:
                toks[k] = rng.choice(BAD)
        sep = lambda: rng.choice([' ', ' ', '  ', '\t', ' \t '])
        body = ''.join(sep() + t for t in toks) + rng.choice(['', ' ', '\t', ' # note D1', '#x', '\r'])
        text = 'error(0.125)' + body + '\n'
        inp.append('dtgtread ' + (body + '\n').encode('latin1').hex())
        meta.append(text)
    res = core.run_svm('\n'.join(inp) + '\n', timeout=1200)
    for text, m in zip(meta, res):
        try:
            out = asan.request('dparse', ['string'], text.encode('latin1').hex())
        except core.Crash as e:
            rep.violation('DetectorErrorModel parser (string)', 'crash', text, 'parser failed: ' + str(e) + e.stderr[-800:])
            continue
        impl_err = out[0] if out and out[0].startswith('ERR') else None
        rep.count(('c08-t', text), nontrivial=m.startswith('OK') and ',' in m)
        if m.startswith('ERR'):
            if impl_err is None:
                rep.violation('read_arbitrary_dem_targets_into', 'accept-invalid', text,
                              'the target list is rejected by the model of the reader (DemTargets.read_dtargets) but the parser accepted it', 'ERR', out[0][:100])
            continue
        if not m.startswith('OK'):
            rep.broken_obligation('DemTargets-model-run', {'text': text, 'model': m})
            continue
        want, rest, written = [x.strip() for x in m[3:].split('|')]
        if impl_err is not None:
            if any(x in impl_err for x in READER_MESSAGES):
                rep.violation('read_arbitrary_dem_targets_into', 'reject-valid', text,
                              'the model of the reader accepts this target list but the parser rejected it while reading targets: ' + impl_err[:200])
            continue
        got = parse_dump(out[1:])
        tl = [t for ins in got for t in ins[3]] if got else []
        wl = [enc_target(x) for x in want.split(',') if x]
        if tl != wl:
            rep.violation('read_arbitrary_dem_targets_into', 'wrong-result', text, 'parsed targets differ from the model of the reader', wl, tl)
            continue
        printed = bytes.fromhex(out[0][3:]).decode('latin1').rstrip('\n')
        if got and len(got) == 1 and printed != 'error(0.125)' + bytes.fromhex(written).decode('latin1'):
            rep.violation('operator<<(DemInstruction)', 'wrong-result', text, 'printed target list differs from the model of the printer',
                          'error(0.125)' + bytes.fromhex(written).decode('latin1'), printed)


def replay(path):
    r = json.load(open(path))
    print(json.dumps(r, indent=1))
    return 0
