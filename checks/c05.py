"""C05 — noise channels fire with their documented probabilities and correlations.
(1) Tie H, exact: biased_randomize_bits for probabilities top/256 (6 <= top <= 128) and their complements is a function of the raw
    generator words; the extracted CoinWord.brb_exact must reproduce the words written, bit for bit.
(2) Statistical ties (fixed seeds, 6.5 sigma): bit frequency, per-lane frequency, adjacent-pair frequency and start/end positions of
    biased_randomize_bits over the probability grid incl. the algorithm switch points; hit statistics of the rare-error iterator.
(3) For every noise instruction the exact outcome distribution of a small probe circuit is computed from the specification
    (fault variables of vlib/stimtext.py, forms from the extracted Spec.srun, enumeration over channel outcomes) and compared cell by
    cell with histograms from the bulk sampler, the single-shot simulator, the detection sampler and the DEM sampler; impossible
    outcomes must never occur."""
import itertools
import json
import math

from vlib import core, demtext, gatetable, stimtext

GRID = [0.0, 1e-4, 0.0199, 0.02, 0.3, 0.5, 0.51, 0.75, 0.9375, 1.0]
ZMAX = 6.5


def exact_pmf(forms, channels, base):
    """forms: list of (c, mask); variables < base are fault variables set by the channels' outcomes, others fair coins"""
    coins = sorted(set(b for c, m in forms for b in bits(m >> base)))
    if len(coins) > 10:
        raise ValueError('too many coins')
    pmf = {}
    ch_out = []
    for ch in channels:
        tot = sum(p for p, vs in ch.outcomes)
        ch_out.append([(max(0.0, 1 - tot), 0)] + [(p, sum(1 << v for v in vs)) for p, vs in ch.outcomes])
    for combo in itertools.product(*ch_out):
        pr = 1.0
        fv = 0
        for p, m in combo:
            pr *= p
            fv ^= m
        if pr == 0:
            continue
        for cv in range(1 << len(coins)):
            full = fv
            for k, b in enumerate(coins):
                if (cv >> k) & 1:
                    full |= 1 << (b + base)
            key = ''.join('1' if (c ^ (bin(m & full).count('1') & 1)) else '0' for c, m in forms)
            pmf[key] = pmf.get(key, 0.0) + pr / (1 << len(coins))
    return pmf


def bits(m):
    out = []
    k = 0
    while m:
        if m & 1:
            out.append(k)
        m >>= 1
        k += 1
    return out


def dem_pmf(errors, ndet, nobs):
    """independent mechanisms -> pmf over detector+observable bit strings"""
    pmf = {'0' * (ndet + nobs): 1.0}
    for p, s in errors:
        if p == 0:
            continue
        mask = [0] * (ndet + nobs)
        for t in s:
            if t[0] == 'D':
                mask[int(t[1:])] = 1
            else:
                mask[ndet + int(t[1:])] = 1
        new = {}
        for key, q in pmf.items():
            new[key] = new.get(key, 0.0) + q * (1 - p)
            k2 = ''.join('1' if (a == '1') != (b == 1) else '0' for a, b in zip(key, mask))
            new[k2] = new.get(k2, 0.0) + q * p
        pmf = new
    return pmf


def compare_hist(rep, entry, inp, hist, pmf, shots):
    cells = set(hist) | set(pmf)
    worst = 0.0
    for key in cells:
        q = pmf.get(key, 0.0)
        k = hist.get(key, 0)
        if q <= 0:
            if k:
                rep.violation(entry, 'wrong-result', inp, 'outcome %s is impossible by the documented semantics but occurred %d times in %d shots' % (key, k, shots))
                return
            continue
        if q >= 1 - 1e-15:
            if k != shots:
                rep.violation(entry, 'wrong-result', inp, 'outcome %s is certain but occurred only %d times in %d shots' % (key, k, shots))
                return
            continue
        var = shots * q * (1 - q)
        if var >= 25:
            z = (k - shots * q) / math.sqrt(var)
            worst = max(worst, abs(z))
            if abs(z) > ZMAX:
                rep.violation(entry, 'wrong-result', inp, 'outcome %s has documented probability %.6g but frequency %.6g (%d of %d shots, z = %.1f)' % (key, q, k / shots, k, shots, z), q, k / shots)
                return
        else:
            lam = shots * q
            if k > lam + ZMAX * math.sqrt(lam) + 12:
                rep.violation(entry, 'wrong-result', inp, 'rare outcome %s (documented probability %.3g) occurred %d times in %d shots' % (key, q, k, shots), q, k / shots)
                return
    return worst


def bell_probe(noise_lines, nq):
    """Bell pair per probed qubit q (partner q + nq): the record shows the Z part (qubit) and X part (partner) of what hit q"""
    qs = list(range(nq))
    ps = [q + nq for q in qs]
    pre = ['R ' + ' '.join(map(str, qs + ps)), 'H ' + ' '.join(map(str, qs)), 'CX ' + ' '.join('%d %d' % (q, q + nq) for q in qs)]
    post = ['CX ' + ' '.join('%d %d' % (q, q + nq) for q in qs), 'H ' + ' '.join(map(str, qs)), 'M ' + ' '.join(map(str, qs + ps))]
    return '\n'.join(pre + noise_lines + post)


def fmt(p):
    return repr(float(p))


def cases(rng, quick):
    out = []
    grid = GRID
    # one-parameter Pauli channels, several targets in one instruction (positions), grid of probabilities
    for name in ['X_ERROR', 'Y_ERROR', 'Z_ERROR', 'DEPOLARIZE1']:
        for p in grid:
            out.append(('%s(%s)' % (name, fmt(p)), bell_probe(['%s(%s) 0 1 2' % (name, fmt(p))], 3)))
    for p in grid:
        if p <= 0.9375:
            out.append(('DEPOLARIZE2(%s)' % fmt(p), bell_probe(['DEPOLARIZE2(%s) 0 1' % fmt(p)], 2)))
    for args in [(0.3, 0.2, 0.1), (0.02, 0.0199, 0.5), (0.0, 1.0, 0.0), (1e-4, 0.0, 0.9375), (0.25, 0.25, 0.5), (0.51, 0.0, 0.0)]:
        out.append(('PAULI_CHANNEL_1%s' % (args,), bell_probe(['PAULI_CHANNEL_1(%s) 0 1' % ', '.join(map(fmt, args))], 2)))
    for _ in range(3 if quick else 10):
        w = [rng.choice([0, 0, 0.01, 0.05, 0.02, 0.1]) for _ in range(15)]
        if sum(w) > 1:
            continue
        out.append(('PAULI_CHANNEL_2', bell_probe(['PAULI_CHANNEL_2(%s) 0 1' % ', '.join(map(fmt, w))], 2)))
    out.append(('PAULI_CHANNEL_2 full', bell_probe(['PAULI_CHANNEL_2(%s) 0 1' % ', '.join([fmt(1 / 15)] * 15)], 2)))
    # correlated error chains: mutually exclusive elements with conditional probabilities
    for ps in [(0.3, 0.5, 0.75), (0.02, 0.0199, 0.51), (1.0, 0.5, 0.5), (0.0, 1.0, 0.3), (0.5, 0.5, 0.5), (1e-4, 0.9375, 1.0)]:
        lines = ['E(%s) X0 Z1' % fmt(ps[0]), 'ELSE_CORRELATED_ERROR(%s) Y1' % fmt(ps[1]), 'ELSE_CORRELATED_ERROR(%s) Z0 X2' % fmt(ps[2])]
        out.append(('E/ELSE %s' % (ps,), bell_probe(lines, 3)))
    out.append(('two chains', bell_probe(['E(0.3) X0', 'ELSE_CORRELATED_ERROR(0.5) X1', 'E(0.5) Z0', 'ELSE_CORRELATED_ERROR(0.75) Z1'], 2)))
    # other noise between the elements of one chain: the chain's state must survive it (the channels that are themselves run as
    # chains save and restore it)
    zeros15 = ', '.join(['0'] * 15)
    for inner in ['PAULI_CHANNEL_2(%s) 1 2' % zeros15, 'PAULI_CHANNEL_2(0.05, 0, 0, 0.1, 0, 0, 0, 0, 0, 0.02, 0, 0, 0, 0, 0.3) 1 2',
                  'PAULI_CHANNEL_1(0.1, 0.2, 0.3) 1 2', 'PAULI_CHANNEL_1(0, 0, 0) 1', 'DEPOLARIZE2(0.3) 1 2', 'DEPOLARIZE1(0.3) 1 2',
                  'X_ERROR(0.5) 1', 'HERALDED_ERASE(0.3) 1', 'HERALDED_PAULI_CHANNEL_1(0.1, 0.2, 0.3, 0.1) 1']:
        for pe in ((1.0, 1.0), (0.5, 0.5), (0.3, 0.75)):
            lines = ['E(%s) X0' % fmt(pe[0]), inner, 'ELSE_CORRELATED_ERROR(%s) X3' % fmt(pe[1])]
            out.append(('E ; %s ; ELSE %s' % (inner.split('(')[0], pe), bell_probe(lines, 4)))
    # heralded channels
    for p in grid:
        out.append(('HERALDED_ERASE(%s)' % fmt(p), bell_probe(['HERALDED_ERASE(%s) 0 1' % fmt(p)], 2)))
    for args in [(0.1, 0.2, 0.3, 0.4), (0.0, 0.0, 0.51, 0.0), (0.02, 0.0199, 0.0, 0.5), (0.25, 0.0, 0.0, 0.0), (0.0, 0.0, 0.0, 1.0)]:
        out.append(('HERALDED_PAULI_CHANNEL_1%s' % (args,), bell_probe(['HERALDED_PAULI_CHANNEL_1(%s) 0 1' % ', '.join(map(fmt, args))], 2)))
    # noisy measurements: the reported result flips, the state does not
    for p in grid:
        for g in ['M', 'MX', 'MY', 'MR', 'MRX', 'MRY']:
            if quick and g not in ('M', 'MRX') and p not in (0.02, 0.5):
                continue
            basis = {'M': 'R', 'MX': 'RX', 'MY': 'RY', 'MR': 'R', 'MRX': 'RX', 'MRY': 'RY'}[g]
            out.append(('%s(%s)' % (g, fmt(p)), '%s 0 1\n%s(%s) 0 !1 0\n%s 0 1' % (basis, g, fmt(p), g)))
        out.append(('MPP(%s)' % fmt(p), 'R 0 1 2\nMPP(%s) Z0*Z1 !Z1*Z2 Z0*Z2\nM 0 1 2' % fmt(p)))
        out.append(('MZZ(%s)' % fmt(p), 'R 0 1 2 3\nMZZ(%s) 0 1 2 !3\nMXX(%s) 0 1\nM 0 1' % (fmt(p), fmt(p))))
        out.append(('MPAD(%s)' % fmt(p), 'MPAD(%s) 0 1 1' % fmt(p)))
    # independence of different applications, loops
    out.append(('loop', 'R 0 1\nREPEAT 3 {\n X_ERROR(0.3) 0\n DEPOLARIZE1(0.51) 1\n MR(0.02) 0 1\n}'))
    out.append(('two applications', bell_probe(['X_ERROR(0.3) 0', 'X_ERROR(0.3) 0', 'Z_ERROR(0.75) 1', 'DEPOLARIZE1(0.3) 1'], 2)))
    return out


def add_detectors(text, nm):
    return text + '\n' + '\n'.join('DETECTOR rec[-%d]' % (nm - k) for k in range(nm))


def run(rep, tier):
    quick = tier == 'quick'
    svh = core.Svh('o1', timeout=600)
    gates, hashes = gatetable.regenerate(svh)
    names = stimtext.Names(gates)
    from checks import c11
    rep.set_proof(c11.prove_shared(['Properties_C05.v']))
    rep.trusted += ['Coq 8.16.1 kernel', 'extraction + runner/main.ml', 'vlib/stimtext.py (fault variables and channel outcome tables)', 'harness/c05.cc',
                    'statistical comparison at 6.5 sigma with fixed seeds (a test, not a proof): deviations below the resolution stated in the evidence are not seen',
                    'std::geometric_distribution has the geometric law (hypothesis of Rare.rare_is_bernoulli), tested through hit statistics']
    rep.assumptions += ['frequencies are compared, not proved: the theorems cover the coin stage (exact), the truncation correction identity, the gap sampler under the '
                        'geometric-law hypothesis and the conditional-probability chain; the tie of those models to the code is the exact word-level '
                        'correspondence (coin stage) and the statistical comparison (everything else)']
    rng = rep.rng()
    # ---------------- (1) exact word-level correspondence ----------------
    tops = list(range(6, 129)) if not quick else sorted(set([6, 7, 64, 77, 127, 128] + [rng.randrange(6, 129) for _ in range(20)]))
    inp = []
    meta = []
    for top in tops:
        for inverted in ([0, 1] if top < 128 else [0]):
            p = top / 256.0
            if inverted:
                p = 1 - p
            n = rng.choice([1, 2, 3, 5])
            seed = rng.randrange(1 << 30)
            o = svh.request('brb', [fmt(p), n, seed])
            raw = o[0].split(' ')[1:]
            outw = o[1].split(' ')[1:]
            inp.append('brbexact %d %d %d %s' % (top, inverted, n, ' '.join(raw)))
            meta.append((p, n, seed, outw))
    res = core.run_svm('\n'.join(inp) + '\n', timeout=600)
    for (p, n, seed, outw), line in zip(meta, res):
        rep.count(('c05-exact', p, n, seed), nontrivial=True)
        if line.split(' ') != outw:
            rep.violation('biased_randomize_bits', 'wrong-result', {'probability': p, 'words': n, 'seed': seed},
                          'words written differ from the model of the coin stage on the same generator words', line, ' '.join(outw))
    # ---------------- (2) bit statistics over the grid ----------------
    reps = 150 if quick else 1500
    nwords = 1001
    for p in GRID + [0.01, 0.1, 0.25 + 1 / 512, 0.49, 0.6, 0.99, 0.9801]:
        seed = rng.randrange(1 << 30)
        o = svh.request('brbstat', [fmt(p), nwords, seed, reps])
        d = dict(zip(o[0].split(' ')[0::2], o[0].split(' ')[1::2]))
        ones, nbits, pairs = int(d['ONES']), int(d['BITS']), int(d['PAIRS'])
        lanes = [int(x) for x in o[1].split(' ')[1:]]
        words = [int(x) for x in o[2].split(' ')[1:]]
        pf = float(_f32(p))
        inp = {'probability': p, 'words': nwords, 'seed': seed, 'reps': reps}
        rep.count(('c05-bits', p), nontrivial=0 < p < 1)
        if _z(rep, 'biased_randomize_bits', inp, 'bit frequency', ones, nbits, pf):
            continue
        # adjacent pairs inside a word: 63 positions per word
        if _z(rep, 'biased_randomize_bits', inp, 'frequency of two adjacent bits both set (independence)', pairs, nwords * reps * 63, pf * pf):
            continue
        bad = False
        for b, v in enumerate(lanes):
            if _z(rep, 'biased_randomize_bits', inp, 'frequency in bit lane %d' % b, v, nwords * reps, pf):
                bad = True
                break
        if bad:
            continue
        for label, v, cnt in [('first word', words[0], 64 * reps), ('last word', words[1], 64 * reps), ('middle word', words[2], 64 * reps),
                              ('first and last bit', words[3], 2 * reps)]:
            if _z(rep, 'biased_randomize_bits', inp, 'frequency in the ' + label, v, cnt, pf):
                break
    for p, attempts in [(0.0199, 100), (1e-4, 50000), (0.3, 7), (0.5, 64), (1.0, 5), (0.0, 5), (0.75, 65), (0.01, 1)]:
        seed = rng.randrange(1 << 30)
        r = 2000 if quick else 20000
        o = svh.request('hitstat', [fmt(p), attempts, seed, r])
        inp = {'probability': p, 'attempts': attempts, 'seed': seed, 'reps': r}
        rep.count(('c05-hits', p, attempts), nontrivial=0 < p < 1)
        if o[0].startswith('BAD'):
            rep.violation('sample_hit_indices', 'wrong-result', inp, o[0])
            continue
        d = dict(zip(o[0].split(' ')[0::2], o[0].split(' ')[1::2]))
        pf = float(_f32(p))
        if _z(rep, 'sample_hit_indices', inp, 'hit frequency', int(d['HITS']), attempts * r, pf):
            continue
        if _z(rep, 'sample_hit_indices', inp, 'hit frequency at index 0', int(d['FIRST']), r, pf):
            continue
        if _z(rep, 'sample_hit_indices', inp, 'hit frequency at the last index', int(d['LAST']), r, pf):
            continue
        if attempts > 1:
            _z(rep, 'sample_hit_indices', inp, 'frequency of adjacent hits', int(d['ADJ']), (attempts - 1) * r, pf * pf)
    # ---------------- (3) every noise instruction in every sampler ----------------
    allc = cases(rng, quick)
    spec_in = []
    keep = []
    for label, text in allc:
        body = stimtext.parse(text, names)
        flat = stimtext.flatten(body)
        nq = max(stimtext.num_qubits(flat), 1)
        ir = stimtext.to_spec(flat, names, nsweep=0, noise=True)
        spec_in.append(stimtext.spec_cmd(nq, ir))
        # the same circuit with one detector per measurement: detection events are flips relative to the noiseless value
        body_d = stimtext.parse(add_detectors(text, ir.num_meas), names)
        ir_d = stimtext.to_spec(stimtext.flatten(body_d), names, nsweep=0, noise=True)
        spec_in.append(stimtext.spec_cmd(nq, ir_d))
        keep.append((label, text, ir))
    spec_out = core.run_svm('\n'.join(spec_in) + '\n', timeout=1200)
    resolution = []
    for (label, text, ir), so, sod in zip(keep, spec_out[0::2], spec_out[1::2]):
        if so.startswith('EXN') or sod.startswith('EXN'):
            rep.broken_obligation('spec-run', {'circuit': text, 'error': so})
            continue
        sp = stimtext.parse_spec_out(so)
        spd = stimtext.parse_spec_out(sod)
        low = (1 << ir.nvars) - 1
        det_ok = all((m & ~low) == 0 for c, m in spd['det'])
        pmf_det = exact_pmf([(0, m) for c, m in spd['det']], ir.channels, ir.nvars) if det_ok else None
        try:
            pmf = exact_pmf(sp['rec'], ir.channels, ir.nvars)
        except ValueError:
            continue
        nm = len(sp['rec'])
        W = rng.choice([64, 128, 256]) if quick else None
        for w in ([W] if W else [64, 128, 256]):
            for sim, shots in [('frame', 600011 if quick else 3000017), ('tableau', 60013 if quick else 300007), ('detect', 300007 if quick else 1500007)]:
                seed = rng.randrange(1 << 30)
                if sim == 'detect' and pmf_det is None:
                    continue
                ctext = add_detectors(text, nm) if sim == 'detect' else text
                inp = {'circuit': ctext, 'sampler': sim, 'W': w, 'shots': shots, 'seed': seed}
                try:
                    o = svh.request('noisehist', [w, sim, seed, shots, '0', 1], ctext)
                except core.Crash as e:
                    rep.violation(_entry(sim), 'crash', inp, str(e) + e.stderr[-500:])
                    svh = core.Svh('o1', timeout=600)
                    continue
                if o and o[-1].startswith('ERR'):
                    rep.violation(_entry(sim), 'reject-valid', inp, o[-1][:300])
                    continue
                hist = {l.split(' ')[1].replace('-', ''): int(l.split(' ')[2]) for l in o if l.startswith('H ')}
                rep.count(('c05-hist', label, sim, w), nontrivial=len(pmf) > 1)
                use = pmf_det if sim == 'detect' else pmf
                if compare_hist(rep, _entry(sim), inp, hist, use, shots) is not None and len(use) <= 16:
                    # different shots are independent: consecutive (non-overlapping) shot pairs follow the product distribution
                    ph = {}
                    for l in o:
                        if l.startswith('P '):
                            t = l.split(' ')
                            ph[t[1].replace('-', '') + '|' + t[2].replace('-', '')] = int(t[3])
                    ppmf = {a + '|' + b: pa * pb for a, pa in use.items() for b, pb in use.items()}
                    compare_hist(rep, _entry(sim), dict(inp, statistic='pairs of consecutive shots'), ph, ppmf, shots // 2)
                resolution.append(shots)
        # DEM sampler: against the distribution of the model it is given (independent mechanisms)
        ctext = add_detectors(text, nm)
        dm = svh.request('analyze', [0, 1, 0, 1.0, 0, 0, 1], ctext)
        if dm and not dm[-1].startswith('ERR') and nm <= 12 and det_ok:
            errors = demtext.flatten(demtext.parse('\n'.join(dm[1:])))[0]
            dp = dem_pmf(errors, nm, 0)
            w = rng.choice([64, 128, 256])
            shots = 600011 if quick else 3000017
            seed = rng.randrange(1 << 30)
            inp = {'circuit': ctext, 'sampler': 'dem', 'W': w, 'shots': shots, 'seed': seed}
            o = svh.request('noisehist', [w, 'dem', seed, shots, '1.0', 1], ctext)
            if o and o[-1].startswith('ERR'):
                rep.violation(_entry('dem'), 'reject-valid', inp, o[-1][:300])
            else:
                hist = {l.split(' ')[1].replace('-', ''): int(l.split(' ')[2]) for l in o if l.startswith('H ')}
                rep.count(('c05-hist', label, 'dem', w), nontrivial=len(dp) > 1)
                if compare_hist(rep, _entry('dem'), inp, hist, dp, shots) is not None and len(dp) <= 16:
                    ph = {}
                    for l in o:
                        if l.startswith('P '):
                            t = l.split(' ')
                            ph[t[1].replace('-', '') + '|' + t[2].replace('-', '')] = int(t[3])
                    ppmf = {a + '|' + b: pa * pb for a, pa in dp.items() for b, pb in dp.items()}
                    compare_hist(rep, _entry('dem'), dict(inp, statistic='pairs of consecutive shots'), ph, ppmf, shots // 2)
    rep.sample({'circuit': allc[0][1]})
    rep.notes['sigma_threshold'] = ZMAX
    rep.notes['smallest_detectable_relative_deviation_at_p_0.3'] = '%.4f' % (ZMAX * math.sqrt(0.7 / 0.3 / max(resolution or [1])))
    svh.close()
    rep.cov['rule'] = ('exact: top/256 probabilities and complements x word counts x seeds; statistics: probability grid incl. 0, 1e-4, 0.0199, 0.02, 0.3, 0.5, '
                       '0.51, 0.75, 0.9375, 1 x bit/lane/pair/position counters; samplers: every noise instruction (X/Y/Z_ERROR, DEPOLARIZE1/2, '
                       'PAULI_CHANNEL_1/2, E/ELSE chains, HERALDED_ERASE, HERALDED_PAULI_CHANNEL_1, noisy M/MX/MY/MR*/MPP/MXX/MZZ/MPAD, loops) x '
                       'frame / tableau / detection / DEM sampler x W; shot counts are not multiples of 64. Non-trivial = more than one possible outcome.')


def _entry(sim):
    return {'frame': 'sample_batch_measurements', 'tableau': 'TableauSimulator::safe_do_circuit', 'detect': 'sample_batch_detection_events',
            'dem': 'DemSampler::resample'}[sim]


def _f32(p):
    import struct
    return struct.unpack('f', struct.pack('f', p))[0]


def _z(rep, entry, inp, what, k, n, q):
    if q <= 0:
        if k:
            rep.violation(entry, 'wrong-result', inp, '%s: %d hits although the probability is 0' % (what, k))
            return True
        return False
    if q >= 1:
        if k != n:
            rep.violation(entry, 'wrong-result', inp, '%s: %d of %d although the probability is 1' % (what, k, n))
            return True
        return False
    var = n * q * (1 - q)
    if var < 25:
        return False
    z = (k - n * q) / math.sqrt(var)
    if abs(z) > ZMAX:
        rep.violation(entry, 'wrong-result', inp, '%s is %.7g, documented %.7g (%d of %d, z = %.1f)' % (what, k / n, q, k, n, z), q, k / n)
        return True
    return False


def replay(path):
    r = json.load(open(path))
    print(json.dumps(r, indent=1))
    return 0
