"""C06 — loop folding never changes any result.
Proofs: Loops.fold_correct / RefFold.fold_loop_correct (the tortoise-hare bookkeeping as structured in the code decompresses to
the unrolled output for every repetition count and every step function with a bisimulation).
Tie H/O: the three folding engines of the implementation are compared with their own unrolled execution on loop bodies with
varied transients/periods and repetition counts around every threshold."""
import json

from vlib import core, demtext, gatetable, gencirc, stimtext
from vlib.stimtext import Instr, T

REPS = [1, 2, 3, 4, 5, 6, 7, 8, 9, 10, 11, 12, 13, 19, 20, 21, 33, 64, 100, 257, 1000, 2049]


def transient_case(rng):
    """loops whose first iteration(s) differ from the steady state, followed by feedback that looks back several iterations"""
    n = rng.choice([2, 3])
    q = 0
    t = 1
    pre = []
    if rng.random() < 0.5:
        pre.append(Instr('X', [], [T('q', q)]))
    body = []
    form = rng.choice(['m_r_x', 'mr_x', 'm_only_x', 'swapchain'])
    if form == 'm_r_x':
        body = [Instr('M', [], [T('q', q)]), Instr('R', [], [T('q', q)]), Instr('X', [], [T('q', q)])]
    elif form == 'mr_x':
        body = [Instr('MR', [], [T('q', q)]), Instr('X', [], [T('q', q)])]
    elif form == 'm_only_x':
        body = [Instr('X', [], [T('q', q)]), Instr('M', [], [T('q', q)])]
    else:
        # a bit travelling down a chain: transient of length n
        pre.append(Instr('X', [], [T('q', 0)]))
        body = [Instr('SWAP', [], [T('q', k), T('q', k + 1)]) for k in range(n - 1)] + [Instr('MR', [], [T('q', n - 1)])]
        if rng.random() < 0.5:
            body.append(Instr('X', [], [T('q', 0)]))
    if rng.random() < 0.3:
        body.append(Instr('DETECTOR', [], [T('rec', 1)]))
    reps = rng.choice([3, 9, 10, 11, 12, 20, 33, 100])
    suffix = [Instr(rng.choice(['CX', 'CY']), [], [T('rec', rng.randint(1, min(6, reps))), T('q', t)]), Instr('M', [], [T('q', t)])]
    if rng.random() < 0.5:
        suffix.append(Instr('DETECTOR', [], [T('rec', 1)]))
    return pre + [Instr('REPEAT', body=body, reps=reps)] + suffix


def ring_case(rng):
    """measurement results with period k (an excitation, or several, carried around a ring of k qubits, one qubit measured per
    iteration): periods 3, 5, 6, 7, 9, 10, 15 with every repetition count / starting phase, so that period windows of the form
    [a, a, b], [a, a, a, a, b], ... occur"""
    k = rng.choice([3, 3, 5, 5, 6, 7, 9, 10, 15])
    pre = []
    ones = rng.sample(range(k), rng.choice([1, 1, 2, max(1, k // 2)]))
    pre.append(Instr('X', [], [T('q', q) for q in ones]))
    for _ in range(rng.randrange(k)):          # starting phase
        pre += [Instr('SWAP', [], [T('q', j), T('q', j + 1)]) for j in range(k - 1)]
    body = [Instr('SWAP', [], [T('q', j), T('q', j + 1)]) for j in range(k - 1)]
    mq = rng.randrange(k)
    body.append(Instr('M', [], [T('q', mq)]))
    if rng.random() < 0.3:
        body.append(Instr('M', [], [T('q', rng.randrange(k))]))
    if rng.random() < 0.3:
        body.append(Instr('DETECTOR', [], [T('rec', 1)]))
    reps = rng.choice([10, 11, 12, 13, 14, 15, 16, 17, 18, 20, 21, 24, 25, 27, 30, 31, 35, 45, 60, 61, 100])
    suffix = [Instr('M', [], [T('q', q) for q in range(k)])]
    if rng.random() < 0.4:
        suffix.insert(0, Instr('CX', [], [T('rec', rng.randint(1, 6)), T('q', rng.randrange(k))]))
    return pre + [Instr('REPEAT', body=body, reps=reps)] + suffix


def loop_case(rng, gates, names):
    """prefix ; REPEAT r { body with MR/M, detectors across iterations, feedback, SHIFT_COORDS } ; suffix with detectors"""
    r0 = rng.random()
    if r0 < 0.2:
        return transient_case(rng)
    if r0 < 0.35:
        return ring_case(rng)
    n = rng.choice([1, 2, 3, 4])
    u1, u2 = gencirc.gate_pools(gates)
    prof = gencirc.Profile(repeat=False, feedback=False, spp=False, mpp=False, pair_meas=False, resets=False, len_range=(0, 4))

    def clifford_block(k):
        out = []
        for _ in range(k):
            if n >= 2 and rng.random() < 0.5:
                a, b = rng.sample(range(n), 2)
                out.append(Instr(rng.choice(['CX', 'CZ', 'SWAP', 'ISWAP', 'CY', 'SQRT_XX', 'CXSWAP']), [], [T('q', a), T('q', b)]))
            else:
                out.append(Instr(rng.choice(['H', 'S', 'SQRT_X', 'X', 'C_XYZ', 'H_YZ', 'S_DAG', 'Z']), [], [T('q', rng.randrange(n))]))
        return out

    prefix = clifford_block(rng.randrange(4))
    if rng.random() < 0.5:
        prefix.append(Instr('M', [], [T('q', rng.randrange(n))]))
    npre = sum(len(i.targets) for i in prefix if i.name == 'M')
    body = clifford_block(rng.randrange(1, 5))
    mper = 0
    for _ in range(rng.choice([1, 1, 2])):
        kind = rng.choice(['MR', 'M', 'MRX', 'MX', 'MZZ', 'MPP'])
        if kind in ('MZZ',) and n < 2:
            kind = 'M'
        if kind == 'MZZ':
            a, b = rng.sample(range(n), 2)
            body.append(Instr('MZZ', [], [T('q', a), T('q', b)]))
            mper += 1
        elif kind == 'MPP':
            qs = rng.sample(range(n), min(n, rng.choice([1, 2])))
            ts = []
            for j, q in enumerate(qs):
                if j:
                    ts.append(T('comb'))
                ts.append(T('pauli', q, pauli=rng.choice('XYZ')))
            body.append(Instr('MPP', [], ts))
            mper += 1
        else:
            body.append(Instr(kind, [], [T('q', rng.randrange(n))]))
            mper += 1
        if rng.random() < 0.4:
            body += clifford_block(rng.randrange(1, 3))
    # detectors comparing with the previous iteration (valid on the first iteration only if enough measurements precede)
    if rng.random() < 0.8:
        look = [1]
        if npre + mper >= mper + 1 and rng.random() < 0.7:
            look.append(1 + mper)
        elif mper >= 2:
            look.append(2)
        body.append(Instr('DETECTOR', [float(rng.randrange(3))] if rng.random() < 0.5 else [], [T('rec', k) for k in look]))
    if rng.random() < 0.3:
        body.append(Instr('OBSERVABLE_INCLUDE', [float(rng.choice([0, 2]))], [T('rec', 1)]))
    if rng.random() < 0.4 and npre + mper >= 2:
        body.append(Instr(rng.choice(['CX', 'CZ']), [], [T('rec', rng.randint(1, min(2, mper))), T('q', rng.randrange(n))]))
    if rng.random() < 0.5:
        body.append(Instr('SHIFT_COORDS', [float(rng.randrange(3)) for _ in range(rng.choice([1, 2]))], []))
    if rng.random() < 0.5:
        body.insert(rng.randrange(len(body) + 1), Instr(rng.choice(['X_ERROR', 'DEPOLARIZE1', 'Z_ERROR']), [rng.choice([0.125, 0.01])],
                                                        [T('q', rng.randrange(n))]))
    if rng.random() < 0.25:
        # nested loop
        inner = clifford_block(rng.randrange(1, 3)) + [Instr('MR', [], [T('q', rng.randrange(n))])]
        if rng.random() < 0.5:
            inner.append(Instr('DETECTOR', [], [T('rec', 1)]))
        body.append(Instr('REPEAT', body=inner, reps=rng.choice([2, 3, 11, 40])))
    reps = rng.choice(REPS)
    suffix = []
    if rng.random() < 0.6:
        # feedback right after the loop that looks back into the loop's (possibly skipped) iterations
        for _ in range(rng.choice([1, 2])):
            suffix.append(Instr(rng.choice(['CX', 'CY', 'CZ']), [], [T('rec', rng.randint(1, max(1, min(2 * mper + 1, npre + mper)))),
                                                                    T('q', rng.randrange(n))]))
    suffix += clifford_block(rng.randrange(3))
    suffix.append(Instr('M', [], [T('q', q) for q in range(n)]))
    suffix.append(Instr('DETECTOR', [1.0, 2.0], [T('rec', 1)] + ([T('rec', n + 1)] if rng.random() < 0.5 else [])))
    if rng.random() < 0.5:
        suffix.append(Instr('OBSERVABLE_INCLUDE', [0.0], [T('rec', 1)]))
    # annotations after the loop that reach over the whole loop to a pre-loop measurement (their pending record entries keep an
    # absolute position while the loop's own entries shift with the iterations)
    if npre and rng.random() < 0.45:
        per_iter = len(stimtext.to_spec(stimtext.flatten([Instr('REPEAT', body=body, reps=1)]), names, nsweep=0, noise=False).meas_instr)
        total_loop = per_iter * reps
        if total_loop + n + npre < (1 << 24) - 2:
            for _ in range(rng.choice([1, 1, 2])):
                lb = n + total_loop + rng.randint(1, npre)
                ts = [T('rec', lb)] + ([T('rec', rng.randint(1, n))] if rng.random() < 0.6 else [])
                if rng.random() < 0.5:
                    suffix.append(Instr('OBSERVABLE_INCLUDE', [float(rng.choice([0, 1, 3]))], ts))
                else:
                    suffix.append(Instr('DETECTOR', [], ts))
    return prefix + [Instr('REPEAT', body=body, reps=reps)] + suffix


def coord_map(dets):
    """detector id -> coordinates; declarations without coordinates carry no information"""
    m = {}
    for i, c in dets:
        if c:
            m.setdefault(i, []).append(tuple(c))
    return {i: sorted(v) for i, v in m.items()}


def strip_noise_and_annotations(instrs, names):
    out = []
    for i in instrs:
        if i.name == 'REPEAT':
            out.append(Instr('REPEAT', body=strip_noise_and_annotations(i.body, names), reps=i.reps))
        elif names.get(i.name).flags & gatetable.F['NOISY'] and not i.name.startswith('M'):
            continue
        else:
            out.append(i)
    return out


def run(rep, tier):
    quick = tier == 'quick'
    svh = core.Svh('o1', timeout=120)
    gates, hashes = gatetable.regenerate(svh)
    names = stimtext.Names(gates)
    rep.set_proof(core.prove(['Properties_C06.v']))
    rep.trusted += ['Coq 8.16.1 kernel', 'harness/c02.cc c03.cc', 'vlib/demtext.py (flatten + merge before comparing)']
    rep.assumptions += ['the bisimulation premises of fold_loop_correct (equal tracked state => equal future outputs) are not proved '
                        'for the three engines; the engines are tied by comparison with their own unrolled execution']
    rng = rep.rng()
    N = 5000 if quick else 30000
    folded = 0
    for k in range(N):
        if sum(1 for v in rep.violations if v['class'] == 'crash') >= 6:
            break
        body = loop_case(rng, gates, names)
        text = stimtext.circuit_text(body)
        # (a) detector error models
        res = {}
        for fold in (0, 1):
            try:
                res[fold] = svh.request('analyze', [0, fold, 1, 0, 0, 0, 1], text)
            except core.Crash as e:
                rep.violation('ErrorAnalyzer::circuit_to_detector_error_model', 'crash', {'circuit': text, 'fold_loops': fold},
                              str(e) + e.stderr[-1000:])
                res[fold] = None
        if res[0] is not None and res[1] is not None:
            e0 = res[0][-1].startswith('ERR')
            e1 = res[1][-1].startswith('ERR')
            if e0 != e1:
                rep.violation('ErrorAnalyzer::circuit_to_detector_error_model', 'wrong-result', {'circuit': text},
                              'fold_loops changes whether the circuit is accepted', res[0][-1][:200], res[1][-1][:200])
            elif not e0:
                d0 = demtext.flatten(demtext.parse('\n'.join(res[0][1:])))
                d1 = demtext.flatten(demtext.parse('\n'.join(res[1][1:])))
                m0, m1 = demtext.merged(d0[0]), demtext.merged(d1[0])
                bad = None
                if res[0][0] != res[1][0]:
                    bad = 'detector/observable counts differ: %s vs %s' % (res[0][0], res[1][0])
                elif set(m0) != set(m1):
                    diff = list(set(m0) ^ set(m1))[:3]
                    bad = 'error symptom sets differ, e.g. %s' % [sorted(x) for x in diff]
                else:
                    for s in m0:
                        if abs(m0[s] - m1[s]) > 1e-9:
                            bad = 'probability of %s differs: %r vs %r' % (sorted(s), m0[s], m1[s])
                            break
                if bad is None and coord_map(d0[1]) != coord_map(d1[1]):
                    bad = 'detector coordinates differ'
                if bad:
                    rep.violation('ErrorAnalyzer::circuit_to_detector_error_model', 'wrong-result', {'circuit': text},
                                  'fold_loops=true flattens to a different model than fold_loops=false: ' + bad)
        # (b) compressed reference sample
        clean = stimtext.circuit_text(strip_noise_and_annotations(body, names))
        try:
            out = svh.request('refsample', [rng.choice([64, 128, 256])], text)
            if len(out) < 3 or out[-1].startswith('ERR'):
                rep.violation('ReferenceSampleTree::from_circuit_reference_sample', 'reject-valid', {'circuit': text},
                              'computing the compressed reference sample failed: ' + (out[-1] if out else '')[:300])
                out = None
            rec, tree = (out[0][4:], out[1][5:]) if out else ('', '')
            if out is None:
                pass
            elif rec != tree:
                rep.violation('ReferenceSampleTree::from_circuit_reference_sample', 'wrong-result', {'circuit': text},
                              'decompressed compressed reference sample differs from the directly simulated reference sample', rec[:200], tree[:200])
            tsize = int(out[2].split()[1]) if out else 0
            if out is not None and tsize != len(rec):
                rep.violation('ReferenceSampleTree::size', 'wrong-result', {'circuit': text}, 'size() differs', len(rec), tsize)
        except core.Crash as e:
            rep.violation('ReferenceSampleTree::from_circuit_reference_sample', 'crash', {'circuit': text}, str(e) + e.stderr[-1000:])
        # (c) reverse tracker
        try:
            out = svh.request('revloop', [], text)
            if len(out) >= 2 and out[0].startswith('FOLD') and out[1].startswith('UNROLL ') and out[0][5:] != out[1][7:]:
                rep.violation('SparseUnsignedRevFrameTracker::undo_loop', 'wrong-result', {'circuit': text},
                              'state after undo_loop differs from undo_loop_by_unrolling', out[1][7:300], out[0][5:300])
        except core.Crash as e:
            rep.violation('SparseUnsignedRevFrameTracker::undo_loop', 'crash', {'circuit': text}, str(e) + e.stderr[-1000:])
        reps = [i for i in body if i.name == 'REPEAT'][0].reps
        rep.count(('c06', text), nontrivial=reps >= 6)
    # generated benchmark circuits with many rounds
    for code, task in [('repetition_code', 'memory'), ('surface_code', 'rotated_memory_x'), ('surface_code', 'unrotated_memory_z'),
                       ('color_code', 'memory_xyz')]:
        for rounds in ([3, 12, 50, 1000] if quick else [2, 3, 5, 6, 7, 12, 13, 50, 1000, 20000]):
            d = 3
            rc, so, se = core.run_stim(['gen', '--code', code, '--task', task, '--distance', str(d), '--rounds', str(rounds),
                                        '--after_clifford_depolarization', '0.001', '--before_measure_flip_probability', '0.01'])
            if rc != 0:
                continue
            text = so.decode()
            if rounds <= 60:
                r0 = svh.request('analyze', [0, 0, 0, 0, 0, 0, 1], text)
                r1 = svh.request('analyze', [0, 1, 0, 0, 0, 0, 1], text)
                m0 = demtext.merged(demtext.flatten(demtext.parse('\n'.join(r0[1:])))[0])
                m1 = demtext.merged(demtext.flatten(demtext.parse('\n'.join(r1[1:])))[0])
                if set(m0) != set(m1) or any(abs(m0[s] - m1[s]) > 1e-9 for s in m0):
                    rep.violation('ErrorAnalyzer::circuit_to_detector_error_model', 'wrong-result',
                                  {'gen': [code, task, d, rounds]}, 'folded and unfolded models differ on a generated circuit')
            out = svh.request('refsample', [64], text)
            if out[0][4:] != out[1][5:]:
                rep.violation('ReferenceSampleTree::from_circuit_reference_sample', 'wrong-result', {'gen': [code, task, d, rounds]},
                              'compressed reference sample differs')
            rep.count(('c06-gen', code, task, rounds), nontrivial=True)
    rep.sample({'circuit': text[:400]})
    svh.close()
    rep.cov['rule'] = ('prefix; REPEAT r {random Clifford body on 1-4 qubits with M/MR/MX/MRX/MZZ/MPP, detectors across iterations, '
                       'feedback, SHIFT_COORDS, noise, nested REPEAT}; suffix -- r in %s; plus generated code circuits up to 1000 '
                       'rounds. Non-trivial = at least 6 repetitions (folding can engage).' % REPS)


def replay(path):
    r = json.load(open(path))
    print(json.dumps(r, indent=1))
    return 0
