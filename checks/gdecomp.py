"""Correspondence (tie H) between coq/Mpp.v (extracted) and src/stim/circuit/gate_decomposition.cc: the same MPP / SPP / pair /
repeated-target instructions are decomposed by both and the emitted instruction sequences must be identical."""
import re

from vlib import core


def gen_products(rng, allow_bad=True):
    nq = rng.choice([3, 4, 6, 10])
    base = rng.choice([0, 0, 0, 60, 125, 250]) if rng.random() < 0.3 else 0
    toks = []
    for _ in range(rng.choice([1, 1, 2, 3, 4, 6])):
        k = rng.choice([1, 1, 2, 2, 3, 4, 5])
        if rng.random() < 0.75:
            qs = rng.sample(range(nq), min(k, nq))
        else:
            qs = [rng.randrange(nq) for _ in range(k)]       # repeated qubits inside one product (may cancel or be anti-Hermitian)
        for j, q in enumerate(qs):
            if j:
                toks.append('*')
            toks.append(('!' if rng.random() < 0.2 else '') + rng.choice('XYZ') + str(base + q))
    return base + nq + rng.choice([0, 0, 1, 5]), toks


def stim_targets(toks):
    out = []
    cur = ''
    for t in toks:
        if t == '*':
            cur += '*'
        elif cur.endswith('*') or not cur:
            cur += t
        else:
            out.append(cur)
            cur = t
    if cur:
        out.append(cur)
    return ' '.join(out)


def norm_impl(lines, args_text):
    """strip the 'I ' prefix and the instruction arguments (they must be the parent's arguments on M / MPAD, none elsewhere)"""
    out = []
    for l in lines:
        if l.startswith('ERR'):
            return 'ERR', None
        body = l[2:]
        m = re.match(r'^([A-Z_]+)(\([^)]*\))?(.*)$', body)
        g, a, rest = m.group(1), m.group(2) or '', m.group(3)
        expect = args_text if g in ('M', 'MPAD') else ''
        if a != expect:
            return 'BADARGS %s' % body, None
        out.append((g + rest).strip())
    return 'OK', ' ; '.join(out)


def run(rep, svh, rng, count):
    cmds = []
    meta = []
    for _ in range(count):
        r = rng.random()
        if r < 0.55:
            n, toks = gen_products(rng)
            args_text = '(0.125)' if rng.random() < 0.3 else ''
            cmds.append('mpp %d %s' % (n, ' '.join(toks)))
            meta.append(('mpp', n, 'MPP%s %s' % (args_text, stim_targets(toks)), args_text))
        elif r < 0.75:
            n, toks = gen_products(rng)
            dag = rng.random() < 0.5
            cmds.append('spp %d %d %s' % (n, int(dag), ' '.join(toks)))
            meta.append(('spp', n, '%s %s' % ('SPP_DAG' if dag else 'SPP', stim_targets(toks)), ''))
        elif r < 0.9:
            nq = rng.choice([2, 3, 5, 8])
            pairs = []
            for _ in range(rng.randint(1, 8)):
                a, b = rng.sample(range(nq), 2)
                pairs.append((a, b))
            g = rng.choice(['MXX', 'MYY', 'MZZ'])
            cmds.append('pairsegs ' + ' '.join('%d,%d' % p for p in pairs))
            meta.append(('pairs', nq, '%s %s' % (g, ' '.join('%d %d' % p for p in pairs)), None))
        else:
            nq = rng.choice([1, 2, 3, 6])
            ts = [rng.randrange(nq) for _ in range(rng.randint(1, 9))]
            g = rng.choice(['MR', 'M', 'R', 'MRX', 'H'])
            cmds.append('revsegs ' + ' '.join(map(str, ts)))
            meta.append(('revseg', nq, '%s %s' % (g, ' '.join(map(str, ts))), None))
    outs = core.run_svm('\n'.join(cmds) + '\n', timeout=600)
    kinds = {}
    for (kind, n, text, args_text), mo in zip(meta, outs):
        impl = svh.request('gdecomp', [kind, n], text)
        inp = {'function': {'mpp': 'decompose_mpp_operation', 'spp': 'decompose_spp_or_spp_dag_operation',
                            'pairs': 'decompose_pair_instruction_into_disjoint_segments',
                            'revseg': 'for_each_disjoint_target_segment_in_instruction_reversed'}[kind], 'num_qubits': n, 'instruction': text}
        if kind in ('mpp', 'spp'):
            st, seq = norm_impl(impl, args_text)
            if st.startswith('BADARGS'):
                rep.violation(inp['function'], 'wrong-result', inp, 'emitted instruction carries unexpected arguments: ' + st[8:])
                continue
            want = mo[3:] if mo.startswith('OK ') else ('' if mo == 'OK' else None)
            if (st == 'ERR') != (want is None):
                # the parser refuses anti-Hermitian products itself; both must agree on refusal
                rep.violation(inp['function'], 'accept-invalid' if want is None else 'reject-valid', inp,
                              'model and implementation disagree on whether the instruction is valid', mo[:200], impl[-1][:200] if impl else '')
                continue
            nontrivial = want is not None and want.count(';') >= 6
            if want is not None and seq != want:
                rep.violation(inp['function'], 'wrong-result', inp, 'emitted instruction sequence differs from the model (coq/Mpp.v)', want, seq)
        else:
            gate = text.split(' ')[0]
            segs = []
            bad = False
            for l in impl:
                if l.startswith('ERR'):
                    bad = True
                    break
                segs.append(l[2:].split(' ', 1)[1] if ' ' in l[2:] else '')
            want = mo[3:] if mo.startswith('OK ') else ''
            nontrivial = want.count(';') >= 1
            if bad:
                rep.violation(inp['function'], 'reject-valid', inp, impl[-1][:200])
            elif ' ; '.join(segs) != want:
                rep.violation(inp['function'], 'wrong-result', inp, 'segments differ from the model (coq/Mpp.v)', want, ' ; '.join(segs))
        kinds[kind] = kinds.get(kind, 0) + 1
        rep.count(('gdecomp', kind, n, text), nontrivial=nontrivial)
    return kinds
