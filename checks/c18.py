"""C18 — explained errors point at circuit faults that really cause them.
Tie O: for every location reported by the real ErrorMatcher, the reported Pauli product is injected just before the reported
instruction occurrence of the UNROLLED circuit (or the reported measurement result is flipped as later feedback sees it) in
the extracted specification (Spec.srun, a fault variable), and the detectors/observables it flips must be exactly the
error's targets. Every error of the circuit's model (or of the filter model) must be explained by at least one location."""
import json

from vlib import core, demtext, gatetable, gencirc, stimtext
from checks import c03


def flat_len(instrs):
    n = 0
    for i in instrs:
        if i.name == 'REPEAT':
            n += i.reps * flat_len(i.body)
        else:
            n += 1
    return n


def flat_index(instrs, frames, depth=0):
    """flattened index of the instruction named by the stack frames (frame d+1 holds the iteration index of the REPEAT at depth d)"""
    off = frames[depth][0]
    idx = 0
    for k in range(off):
        i = instrs[k]
        idx += i.reps * flat_len(i.body) if i.name == 'REPEAT' else 1
    op = instrs[off]
    if op.name == 'REPEAT':
        it = frames[depth + 1][1]
        return idx + it * flat_len(op.body) + flat_index(op.body, frames, depth + 1)
    return idx


def run(rep, tier):
    quick = tier == 'quick'
    svh = core.Svh('o1', timeout=120)
    gates, hashes = gatetable.regenerate(svh)
    names = stimtext.Names(gates)
    from checks import c11
    rep.set_proof(c11.prove_shared(['Properties_C18.v']))
    rep.trusted += ['Coq 8.16.1 kernel', 'extraction + runner/main.ml', 'vlib/stimtext.py (unrolling, fault injection into the spec IR)', 'harness/c18.cc']
    rep.assumptions += ['the matcher\'s bookkeeping is tied by this oracle, not modelled in Coq; reported coordinates are compared with get_final_qubit_coords / get_detector_coordinates (tied to the unrolled program by C15)']
    rng = rep.rng()
    N = 3000 if quick else 20000
    pre = []
    pre_in = []
    for _ in range(N):
        prof = gencirc.Profile(noise=True, measure_noise=True, heralded=True, annotations=False, len_range=(5, 20), n_choices=[1, 2, 3, 4])
        n, body = gencirc.gen_circuit(rng, gates, prof)
        if rng.random() < 0.15:
            # nested loops with noise in the outer body before the inner loop: the matcher's stack frames (iteration index of the
            # enclosing loop after returning from the nested one) are only visible in this shape
            def piece(lo, hi):
                pp = gencirc.Profile(noise=True, measure_noise=True, heralded=False, annotations=False, len_range=(lo, hi), n_choices=[n])
                pp.repeat = False
                return gencirc.gen_circuit(rng, gates, pp)[1]
            inner = piece(2, 4)
            outer = piece(1, 3) + [stimtext.Instr('REPEAT', body=inner, reps=rng.choice([1, 2, 3]))] + (piece(1, 2) if rng.random() < 0.5 else [])
            body = (piece(1, 3) if rng.random() < 0.5 else []) + [stimtext.Instr('REPEAT', body=outer, reps=rng.choice([2, 3, 4]))] + piece(1, 3)
        body = c03.restrict_noise(rng, body, 'approx')
        if rng.random() < 0.4:
            body = c03.add_else_chain(rng, body)
        nq = max(stimtext.num_qubits(body), 1)
        ir0 = stimtext.to_spec(stimtext.flatten(body), names, nsweep=0, noise=False)
        pre_in.append(stimtext.spec_cmd(nq, ir0))
        pre.append((body, nq))
    pre_out = core.run_svm('\n'.join(pre_in) + '\n', timeout=3000)
    spec_in = []
    meta = []
    for (body, nq), so in zip(pre, pre_out):
        sp0 = stimtext.parse_spec_out(so)
        body = c03.add_deterministic_annotations(rng, body, sp0['rec'], 0)
        if rng.random() < 0.6:
            body = add_coordinates(rng, body, nq)
        text = stimtext.circuit_text(body)
        # adjacent identical instructions fuse when the implementation parses the text: use the structure of the canonical print
        canon = svh.request('canon', ['circuit'], text)
        if canon and canon[-1].startswith('ERR'):
            rep.broken_obligation('generator-produced-invalid-circuit', {'circuit': text, 'error': canon[-1]})
            continue
        text = '\n'.join(canon)
        body = stimtext.parse(text, names)
        reduce_ = rng.random() < 0.5
        use_filter = rng.random() < 0.3
        custom = None
        if use_filter and rng.random() < 0.6:
            custom = custom_filter(rng, svh, text)
        try:
            if custom is not None:
                out = svh.request('explain', [int(reduce_), 2], text + '\n' + '\n'.join('@D ' + l for l in custom[0]))
            else:
                out = svh.request('explain', [int(reduce_), int(use_filter)], text)
        except core.Crash as e:
            rep.violation('ErrorMatcher::explain_errors_from_circuit', 'crash', text, str(e) + e.stderr[-1000:])
            continue
        if out and out[-1].startswith('ERR'):
            rep.violation('ErrorMatcher::explain_errors_from_circuit', 'reject-valid', text, out[-1][:300])
            continue
        flat = stimtext.flatten(body)
        ir = stimtext.to_spec(flat, names, nsweep=0, noise=False)
        errors = []
        cur = None
        qc, dc = {}, {}
        ecoords = []
        for l in out:
            if l.startswith('ERROR'):
                cur = (frozenset(l.split(' ')[1:]), [])
                errors.append(cur)
            elif l.startswith('ECOORDS'):
                ecoords.append(l.split(' ')[1:])
            elif l.startswith('LOC'):
                f = dict(x.split('=', 1) for x in l.split(' ')[1:])
                cur[1].append(f)
            elif l.startswith('QC '):
                t = l.split(' ')
                qc[int(t[1])] = t[2] if len(t) > 2 else ''
            elif l.startswith('DC '):
                t = l.split(' ')
                dc[int(t[1])] = t[2] if len(t) > 2 else ''
        # coordinates: detectors of every explained error and qubits of every location carry the circuit's coordinates
        for ec in ecoords:
            for item in ec:
                name, co = item.split('@')
                if name[0] == 'D' and co != dc.get(int(name[1:]), ''):
                    rep.violation('ErrorMatcher::explain_errors_from_circuit', 'wrong-result', {'circuit': text},
                                  'detector %s is reported with coordinates (%s) but the circuit gives it (%s)' % (name, co, dc.get(int(name[1:]), '')))
                    break
        for targets_, locs_ in errors:
            for f in locs_:
                for field in ('pcoords', 'tcoords'):
                    for item in [x for x in f.get(field, '').split(';') if x]:
                        q, co = item.split('@')
                        if q and co != qc.get(int(q), ''):
                            rep.violation('ErrorMatcher::explain_errors_from_circuit', 'wrong-result', {'circuit': text, 'location': f},
                                          'qubit %s is reported with coordinates (%s) but the circuit gives it (%s)' % (q, co, qc.get(int(q), '')))
        nloc = 0
        inloop = False
        for targets, locs in errors:
            if not locs:
                rep.violation('ErrorMatcher::explain_errors_from_circuit', 'wrong-result', {'circuit': text, 'reduce': reduce_, 'filter': use_filter},
                              'error %s was returned without any circuit location' % sorted(targets))
            for f in locs:
                frames = [tuple(int(x) for x in fr.split(':')) for fr in f['frames'].split(',')]
                inloop = inloop or len(frames) > 1
                try:
                    fi = flat_index(body, frames)
                except Exception as ex:
                    rep.violation('ErrorMatcher::explain_errors_from_circuit', 'wrong-result', {'circuit': text},
                                  'stack frames %s do not identify an instruction of the circuit (%r)' % (f['frames'], ex))
                    continue
                if names.get(flat[fi].name).name != f['gate']:
                    rep.violation('ErrorMatcher::explain_errors_from_circuit', 'wrong-result', {'circuit': text},
                                  'stack frames %s name a %s instruction but the location says %s' % (f['frames'], flat[fi].name, f['gate']))
                    continue
                # the reported target range must cover the qubits of the reported fault, and the tick is the number of TICKs before
                a, b = [int(x) for x in f['range'].split(':')]
                rng_targets = flat[fi].targets[a:b]
                rq = set(t.val for t in rng_targets if t.kind in ('q', 'pauli'))
                pq = set(int(t.split(':')[0]) for t in f['pauli'].split(',')) if f['pauli'] else set()
                if not pq <= rq or b > len(flat[fi].targets) or a >= b:
                    rep.violation('ErrorMatcher::explain_errors_from_circuit', 'wrong-result', {'circuit': text, 'location': f},
                                  'reported target range %s of the instruction does not cover the qubits %s of the reported fault' % (f['range'], sorted(pq)))
                ticks = sum(1 for i in flat[:fi] if i.name == 'TICK')
                if int(f['tick']) != ticks:
                    rep.violation('ErrorMatcher::explain_errors_from_circuit', 'wrong-result', {'circuit': text, 'location': f},
                                  'reported tick %s but %d TICK instructions precede the location in the unrolled circuit' % (f['tick'], ticks))
                lines = list(ir.lines)
                inserts = []
                if f['pauli']:
                    prod = ' '.join('%s:%s' % tuple(t.split(':')) for t in f['pauli'].split(','))
                    inserts.append((ir.instr_line_start[fi], 'IF v0 ' + prod))
                if f['meas'] != '-':
                    mi = int(f['meas'])
                    if mi >= len(ir.meas_line):
                        rep.violation('ErrorMatcher::explain_errors_from_circuit', 'wrong-result', {'circuit': text}, 'flipped measurement index out of range')
                        continue
                    inserts.append((ir.meas_line[mi] + 1, 'FLIP 0'))
                for pos, line in sorted(inserts, reverse=True):
                    lines.insert(pos, line)
                spec_in.append('spec %d 1 ; %s' % (nq, ' ; '.join(lines)))
                meta.append((text, targets, f, reduce_, use_filter))
                nloc += 1
        rep.count(('c18', text, reduce_, use_filter), nontrivial=inloop or nloc > 3)
        # every error of the model must be explained
        dm = svh.request('analyze', [0, 0, 0, 1.0, 0, 0, 1], text)
        if dm and not dm[-1].startswith('ERR'):
            want = set(s for p, s in demtext.flatten(demtext.parse('\n'.join(dm[1:])))[0] if s and p > 0)
            if custom is not None:
                want = custom[1]
                extra = set(t for t, locs in errors) - want
                if extra:
                    rep.violation('ErrorMatcher::explain_errors_from_circuit', 'wrong-result', {'circuit': text, 'reduce': reduce_, 'filter': custom[0]},
                                  'explained errors %s are not errors of the supplied filter model (its errors, duplicates cancelled: %s)'
                                  % ([sorted(x) for x in list(extra)[:3]], [sorted(x) for x in list(want)[:6]]))
            got = set(t for t, locs in errors)
            missing = [sorted(s) for s in want - got]
            if missing:
                rep.violation('ErrorMatcher::explain_errors_from_circuit', 'wrong-result', {'circuit': text, 'reduce': reduce_, 'filter': use_filter},
                              'errors of the detector error model without an explanation: %s' % missing[:3])
    spec_out = core.run_svm('\n'.join(spec_in) + '\n', timeout=6000)
    for (text, targets, f, reduce_, use_filter), so in zip(meta, spec_out):
        if so.startswith('EXN'):
            rep.broken_obligation('spec-run', {'circuit': text, 'error': so, 'location': f})
            continue
        sp = stimtext.parse_spec_out(so)
        sym = set()
        for d, (c, m) in enumerate(sp['det']):
            if m & 1:
                sym.add('D%d' % d)
        for i, (c, m) in sp['obs'].items():
            if m & 1:
                sym.add('L%d' % i)
        if sym != set(targets):
            rep.violation('ErrorMatcher::explain_errors_from_circuit', 'wrong-result', {'circuit': text, 'location': f},
                          'injecting the reported fault at the reported place flips %s, but the explained error is %s' % (sorted(sym), sorted(targets)),
                          sorted(targets), sorted(sym))
    if meta:
        rep.sample({'circuit': meta[0][0], 'error': sorted(meta[0][1]), 'location': meta[0][2]})
    rep.notes['locations_resimulated'] = len(meta)
    svh.close()
    rep.cov['rule'] = ('random annotated noisy circuits (every channel kind, measurement noise, heralded channels, ELSE chains, feedback, MPP, '
                       'REPEAT nesting) with detectors chosen deterministic via the specification; both reduce_to_one_representative_error '
                       'settings, with and without a filter model. Non-trivial = a location inside a REPEAT or more than 3 locations.')


def add_coordinates(rng, body, nq):
    from vlib.stimtext import Instr, T
    out = []
    for q in range(nq):
        if rng.random() < 0.6:
            out.append(Instr('QUBIT_COORDS', [float(rng.randrange(6)) for _ in range(rng.choice([1, 2, 3]))], [T('q', q)]))

    def go(l, depth):
        r = []
        for i in l:
            if i.name == 'REPEAT':
                i.body = go(i.body, depth + 1)
            elif i.name == 'DETECTOR' and rng.random() < 0.8:
                i.args = [float(rng.randrange(5)) for _ in range(rng.choice([1, 2, 3]))]
            r.append(i)
            if i.name in ('E', 'CORRELATED_ERROR', 'ELSE_CORRELATED_ERROR'):
                continue
            if rng.random() < 0.08:
                r.append(Instr('SHIFT_COORDS', [float(rng.randrange(3)) for _ in range(rng.choice([1, 2]))], []))
            if rng.random() < 0.04:
                r.append(Instr('QUBIT_COORDS', [float(rng.randrange(6))], [T('q', rng.randrange(nq))]))
        return r
    return out + go(body, 0)


def custom_filter(rng, svh, text):
    """a caller-supplied filter: a subset of the circuit's own errors, written with suggested-decomposition separators, repeated
    (cancelling) targets and shuffled order; returns (dem lines, set of symptom sets with duplicates cancelled) or None"""
    dm = svh.request('analyze', [0, 0, 0, 1.0, 0, 0, 1], text)
    if not dm or dm[-1].startswith('ERR'):
        return None
    errs = [s for p, s in demtext.flatten(demtext.parse('\n'.join(dm[1:])))[0] if s and p > 0]
    if not errs:
        return None
    allt = sorted(set(t for s in errs for t in s))
    pick = [s for s in errs if rng.random() < 0.7] or [errs[0]]
    lines = []
    want = set()
    for s in pick:
        ts = sorted(s)
        rng.shuffle(ts)
        k = rng.random()
        if k < 0.35:
            x = rng.choice(allt)                      # a cancelling pair split over two components
            pos = rng.randrange(len(ts) + 1)
            ts = ts[:pos] + [x, '^', x] + ts[pos:]
        elif k < 0.55:
            x = rng.choice(allt)                      # a cancelling pair around other targets
            ts = [x] + ts + [x]
        elif k < 0.7 and len(ts) >= 2:
            ts.insert(rng.randrange(1, len(ts)), '^')
        elif k < 0.8:
            x = rng.choice(ts)                        # a target listed three times
            ts = ts + [x, x]
        ts = [t for j, t in enumerate(ts) if not (t == '^' and (j == 0 or j == len(ts) - 1))]
        lines.append('error(%s) %s' % (rng.choice(['0.125', '0.01', '0.5']), ' '.join(ts)))
        want.add(frozenset(s))
    return lines, want


def replay(path):
    r = json.load(open(path))
    print(json.dumps(r, indent=1))
    return 0
