"""C14 — stabilizer flow queries are correct and complete.
Tie O: a flow  P -> Q xor rec[M]  holds iff, on the Choi state (one Bell pair per qubit, circuit applied to one half) of the
extracted specification, the observable P^T (x) Q is determined and its sign form plus the forms of the measurements in M is the
constant given by the flow's sign. The final Choi stabilizer group of the specification is a complete basis of the circuit's
flows, which decides completeness of flow_generators and "no solution" answers of solve_flow_measurements."""
import json

from vlib import core, gatetable, gencirc, stimtext
from vlib.pauli import P as PP

LET = {'_': (0, 0), 'I': (0, 0), 'X': (1, 0), 'Y': (1, 1), 'Z': (0, 1)}


def parse_flow(text):
    """'-X_ -> Z_ xor rec[1] xor rec[-1]' -> (signbit, instr, outstr, [rec indices])"""
    left, right = text.split('->')
    left = left.strip()
    parts = [p.strip() for p in right.split('xor')]
    out = '1'
    recs = []
    sign = 0
    for p in parts:
        if p.startswith('-'):
            sign ^= 1
        p = p.lstrip('+-')
        if p.startswith('rec['):
            recs.append(int(p[4:-1]))
        elif p.startswith('obs['):
            raise ValueError('obs term')
        else:
            out = p

    def norm(s):
        nonlocal sign
        if s.startswith('-'):
            sign ^= 1
        s = s.lstrip('+-')
        return '' if s == '1' else s
    return sign, norm(left), norm(out), recs


def choi_cmd(ir_lines, n, probes):
    pre = []
    return pre


def flow_probe(p_in, p_out, n):
    terms = []
    for q, c in enumerate(p_in):
        if c not in '_I':
            terms.append('%d:%s' % (n + q, c))
    for q, c in enumerate(p_out):
        if c not in '_I':
            terms.append('%d:%s' % (q, c))
    return terms


def run(rep, tier):
    quick = tier == 'quick'
    svh = core.Svh('o1', timeout=120)
    gates, hashes = gatetable.regenerate(svh)
    names = stimtext.Names(gates)
    h_id = names.get('H').id
    cx_id = names.get('CX').id
    from checks import c11
    rep.set_proof(c11.prove_shared(['Properties_C14.v']))
    rep.trusted += ['Coq 8.16.1 kernel', 'extraction + runner/main.ml', 'vlib/stimtext.py', 'harness/c14.cc',
                    'the Choi-state reading of a flow (DESIGN section 3.4) and GF(2) elimination in the driver for span tests']
    rep.assumptions += ['the flow solver is not modelled in Coq; flows with obs[...] terms are not generated',
                        'findings D7 (MR* with a repeated target) and D21 (MPAD target order), fixed in /repo, are replayed from the corpus first']
    rng = rep.rng()
    N = 400 if quick else 6000
    corpus = ['MR 0 0', 'MPAD 0 1', 'MPAD 1 0 0\nH 0', 'MRX 0 1 0 !1\nH 0', 'MRY 1 1 1']
    todo = [(t, True) for t in corpus]
    for _ in range(N):
        prof = gencirc.Profile(len_range=(2, 10), n_choices=[1, 2, 3], repeat=(rng.random() < 0.3), sweep=False, feedback=True, noise=False)
        nq, body = gencirc.gen_circuit(rng, gates, prof)
        body = [i for i in body if i.name not in ('TICK',)]
        todo.append((stimtext.circuit_text(body), False))
    for text, is_corpus in todo:
        body = stimtext.parse(text, names)
        n = stimtext.num_qubits([i for i in stimtext.flatten(body) if i.name != 'MPAD'])
        if n == 0:
            continue
        flat = stimtext.flatten(body)
        ir = stimtext.to_spec(flat, names, nsweep=0, noise=False)
        nm = ir.num_meas
        choi = ['U1 %d %d' % (h_id, n + q) for q in range(n)] + ['U2 %d %d %d' % (cx_id, n + q, q) for q in range(n)]
        # implementation generators
        try:
            go = svh.request('flowgens', [], text)
        except core.Crash as e:
            rep.violation('circuit_flow_generators', 'crash', text, str(e) + e.stderr[-800:])
            continue
        if go and go[-1].startswith('ERR'):
            rep.violation('circuit_flow_generators', 'reject-valid', text, go[-1][:300])
            continue
        gens = []
        skip = False
        for l in go:
            try:
                gens.append((l[2:], parse_flow(l[2:])))
            except ValueError:
                skip = True
        if skip:
            continue
        # candidate flows: generators, products of generators, near misses
        cands = [g for g in gens]
        for _ in range(4):
            if len(gens) >= 2:
                a, b = rng.sample(gens, 2)
                cands.append(mul_flows(a[1], b[1], n))
        base = list(cands)
        for _ in range(6):
            if base:
                t, f = rng.choice(base)
                cands.append(mutate(rng, f, n, nm))
        for _ in range(3):
            cands.append(random_flow(rng, n, nm))
        probes = ['PROBE ' + ' '.join(flow_probe(pad(f[1], n), pad(f[2], n), n)) for t, f in cands]
        cmd = 'spec %d 0 ; %s' % (2 * n, ' ; '.join(choi + list(ir.lines) + probes))
        gcmd = 'specgens %d 0 ; %s' % (2 * n, ' ; '.join(choi + list(ir.lines)))
        so, sg = core.run_svm(cmd + '\n' + gcmd + '\n', timeout=600)[:2]
        if so.startswith('EXN'):
            rep.broken_obligation('spec-run', {'circuit': text, 'error': so})
            continue
        sp = stimtext.parse_spec_out(so)
        verdicts = []
        for (t, f), pf in zip(cands, sp['probe'][-len(cands):] if cands else []):
            verdicts.append(spec_flow_holds(f, pf, sp['rec'], nm))
        # implementation answers
        payload = text + '\n' + '\n'.join('@F ' + flow_text(f, n) for t, f in cands)
        try:
            ho = svh.request('hasflow', [rng.randrange(1 << 30), 256], payload)
        except core.Crash as e:
            rep.violation('has_flow', 'crash', payload, str(e) + e.stderr[-800:])
            continue
        if ho and ho[-1].startswith('ERR'):
            rep.violation('has_flow', 'reject-valid', payload, ho[-1][:300])
            continue
        both = False
        for k, ((t, f), (sv, uv)) in enumerate(zip(cands, verdicts)):
            s_impl, u_impl = [int(x) for x in ho[k].split(' ')[1:]]
            if k < len(gens):
                if not sv:
                    rep.violation('circuit_flow_generators', 'wrong-result', text, 'returned generator is not a flow of the circuit: ' + flow_text(f, n))
            if bool(s_impl) != sv:
                rep.violation('sample_if_circuit_has_stabilizer_flows', 'wrong-result', {'circuit': text, 'flow': flow_text(f, n)},
                              'signed flow check differs from exact simulation on the Choi state', sv, bool(s_impl))
            if bool(u_impl) != uv:
                rep.violation('check_if_circuit_has_unsigned_stabilizer_flows', 'wrong-result', {'circuit': text, 'flow': flow_text(f, n)},
                              'unsigned flow check differs from exact simulation on the Choi state', uv, bool(u_impl))
        rep.count(('c14', text), nontrivial=any(v[0] for v in verdicts) and any(not v[1] for v in verdicts))
        # flows whose Pauli strings are shorter or longer than the circuit (qubits past the circuit are idle: they carry their
        # Pauli through unchanged), input and output of different lengths
        if rng.random() < 0.6:
            extended_flows(rep, svh, rng, text, n, nm, ir, [f for (t, f), v in zip(cands, verdicts) if v[0]], h_id, cx_id)
        # completeness: every flow of the specification's final Choi group lies in the span of the returned generators
        spec_flows = choi_flows(sg, sp['rec'], n, nm)
        gvecs = [flow_vec(f, n, nm) for t, f in gens]
        rk = rank(gvecs)
        if rk != len(gvecs):
            rep.violation('circuit_flow_generators', 'wrong-result', text, 'returned generators are not independent (rank %d of %d)' % (rk, len(gvecs)))
        for f in spec_flows:
            if rank(gvecs + [flow_vec(f, n, nm)]) != rk:
                rep.violation('circuit_flow_generators', 'wrong-result', text,
                              'the circuit has the flow %s which the returned generators do not generate' % flow_text(f, n))
                break
        # solve_flow_measurements on in/out pairs taken from true flows and from random pairs
        solve_check(rep, svh, rng, text, spec_flows, n, nm, choi, ir)
    rep.sample({'circuit': todo[-1][0]})
    svh.close()
    rep.cov['rule'] = ('random noiseless circuits on 1-3 qubits (all gates, M/MR/R, pair and product measurements, feedback) x flows: returned '
                       'generators, their products, near misses (one Pauli / sign / measurement changed), random flows. Non-trivial = at least '
                       'one true and one false flow queried.')


def has_repeated_mr(body, names):
    for i in body:
        if i.name == 'REPEAT':
            if has_repeated_mr(i.body, names):
                return True
        elif names.get(i.name).name in ('MR', 'MRX', 'MRY'):
            qs = [t.val for t in i.targets]
            if len(set(qs)) != len(qs):
                return True
    # consecutive MR lines on the same qubit fuse into one instruction
    prev = None
    for i in body:
        nm = names.get(i.name).name if i.name != 'REPEAT' else 'REPEAT'
        if nm in ('MR', 'MRX', 'MRY') and prev is not None and prev[0] == nm and prev[1] == tuple(i.args) and set(prev[2]) & set(t.val for t in i.targets):
            return True
        prev = (nm, tuple(i.args), [t.val for t in i.targets]) if nm in ('MR', 'MRX', 'MRY') else None
    return False


def raw_flow_text(f):
    """like flow_text, but the strings are printed with the lengths they have"""
    sign, pin, pout, recs = f
    a = pin if pin.strip('_I') else '1'
    b = pout if pout.strip('_I') else '1'
    terms = ([b] if b != '1' or not recs else []) + ['rec[%d]' % r for r in recs]
    if sign and a != '1':
        a = '-' + a
    elif sign:
        terms[0] = '-' + terms[0]
    return a + ' -> ' + ' xor '.join(terms)


def extended_flows(rep, svh, rng, text, n, nm, ir, true_flows, h_id, cx_id):
    EXTRA = 3
    N = n + EXTRA
    base = list(true_flows) or [(0, '_' * n, '_' * n, [])]
    cands = []
    for _ in range(6):
        sign, pin, pout, recs = rng.choice(base)
        pin, pout = pad(pin, n), pad(pout, n)
        kind = rng.choice(['both', 'out_only', 'in_only', 'short', 'both2', 'out_far'])
        ext = ''.join(rng.choice('XYZ') if rng.random() < 0.7 else '_' for _ in range(rng.choice([1, 2, 3])))
        if not ext.strip('_'):
            ext = ext[:-1] + rng.choice('XYZ')
        if kind == 'both':
            pin, pout = pin + ext, pout + ext
        elif kind == 'both2':
            pin, pout = pin + ext, pout + ext[:-1] + rng.choice('XYZ_')
        elif kind == 'out_only':
            pout = pout + ext
        elif kind == 'out_far':
            pout = pout + '_' * rng.choice([0, 1, 2]) + rng.choice('ZZX')
            pout = pout[:N]
        elif kind == 'in_only':
            pin = pin + ext
        else:
            pin, pout = pin.rstrip('_'), pout.rstrip('_')
        cands.append((sign, pin, pout, list(recs)))
    choi = ['U1 %d %d' % (h_id, N + q) for q in range(N)] + ['U2 %d %d %d' % (cx_id, N + q, q) for q in range(N)]
    probes = ['PROBE ' + ' '.join(flow_probe(pad(f[1], N), pad(f[2], N), N)) for f in cands]
    so = core.run_svm('spec %d 0 ; %s\n' % (2 * N, ' ; '.join(choi + list(ir.lines) + probes)), timeout=600)[0]
    if so.startswith('EXN'):
        return
    sp = stimtext.parse_spec_out(so)
    verdicts = [spec_flow_holds(f, pf, sp['rec'], nm) for f, pf in zip(cands, sp['probe'][-len(cands):])]
    payload = text + '\n' + '\n'.join('@F ' + raw_flow_text(f) for f in cands)
    try:
        ho = svh.request('hasflow', [rng.randrange(1 << 30), 256], payload)
    except core.Crash as e:
        rep.violation('has_flow', 'crash', payload, str(e) + e.stderr[-800:])
        return
    if ho and ho[-1].startswith('ERR'):
        rep.violation('has_flow', 'reject-valid', payload, ho[-1][:300])
        return
    for k, (f, (sv, uv)) in enumerate(zip(cands, verdicts)):
        s_impl, u_impl = [int(x) for x in ho[k].split(' ')[1:]]
        inp = {'circuit': text, 'flow': raw_flow_text(f)}
        if bool(s_impl) != sv:
            rep.violation('sample_if_circuit_has_stabilizer_flows', 'wrong-result', inp,
                          'signed flow check (Pauli strings longer / shorter than the circuit) differs from exact simulation on the Choi state', sv, bool(s_impl))
        if bool(u_impl) != uv:
            rep.violation('check_if_circuit_has_unsigned_stabilizer_flows', 'wrong-result', inp,
                          'unsigned flow check (Pauli strings longer / shorter than the circuit) differs from exact simulation on the Choi state', uv, bool(u_impl))
    rep.count(('c14-ext', text, tuple(raw_flow_text(f) for f in cands)), nontrivial=any(v[0] for v in verdicts) and any(not v[0] for v in verdicts))


def pad(s, n):
    return s + '_' * (n - len(s))


def flow_text(f, n):
    sign, pin, pout, recs = f
    a = pad(pin, n) if pin.strip('_I') else '1'
    b = pad(pout, n) if pout.strip('_I') else '1'
    terms = ([b] if b != '1' or not recs else []) + ['rec[%d]' % r for r in recs]
    if sign and a != '1':
        a = '-' + a
    elif sign:
        terms[0] = '-' + terms[0]
    return a + ' -> ' + ' xor '.join(terms)


def spec_flow_holds(f, probe_form, rec_forms, nm):
    sign, pin, pout, recs = f
    if probe_form is None:
        return (False, False)
    c, m = probe_form
    for r in recs:
        idx = r if r >= 0 else nm + r
        if idx < 0 or idx >= nm:
            return (False, False)
        c ^= rec_forms[idx][0]
        m ^= rec_forms[idx][1]
    ny = sum(1 for ch in pin if ch == 'Y')
    unsigned = m == 0
    return (unsigned and c == (sign ^ (ny & 1)), unsigned)


def mul_flows(a, b, n):
    pa = PP.from_str(('-' if a[0] else '+') + pad(a[1], n)) * PP.from_str(('-' if b[0] else '+') + pad(b[1], n))
    qa = PP.from_str('+' + pad(a[2], n)) * PP.from_str('+' + pad(b[2], n))
    hp, hq = pa.hermitian_str(), qa.hermitian_str()
    if hp is None or hq is None:
        # anticommuting inputs and outputs both pick up i: i*i = -1 overall; fold into the sign
        pi = PP(pa.k + 1, pa.x, pa.z, pa.n)
        qi = PP(qa.k + 3, qa.x, qa.z, qa.n)
        hp, hq = pi.hermitian_str(), qi.hermitian_str()
    sign = (hp[0] == '-') ^ (hq[0] == '-')
    recs = sorted(set(a[3]) ^ set(b[3]))
    f = (int(sign), hp[1:], hq[1:], recs)
    return (None, f)


def mutate(rng, f, n, nm):
    sign, pin, pout, recs = f
    pin, pout = list(pad(pin, n)), list(pad(pout, n))
    k = rng.choice(['sign', 'in', 'out', 'rec'])
    if k == 'sign':
        sign ^= 1
    elif k == 'in':
        q = rng.randrange(n)
        pin[q] = rng.choice([c for c in '_XYZ' if c != pin[q]])
    elif k == 'out':
        q = rng.randrange(n)
        pout[q] = rng.choice([c for c in '_XYZ' if c != pout[q]])
    elif nm:
        r = rng.randrange(nm)
        recs = sorted(set(recs) ^ {r})
    return (None, (sign, ''.join(pin), ''.join(pout), list(recs)))


def random_flow(rng, n, nm):
    pin = ''.join(rng.choice('__XYZ') for _ in range(n))
    pout = ''.join(rng.choice('__XYZ') for _ in range(n))
    recs = sorted(set(rng.randrange(nm) for _ in range(rng.choice([0, 1, 2])))) if nm else []
    return (None, (rng.randrange(2), pin, pout, recs))


def flow_vec(f, n, nm):
    sign, pin, pout, recs = f
    v = 0
    for q, c in enumerate(pad(pin, n)):
        x, z = LET[c]
        v |= x << (2 * q)
        v |= z << (2 * q + 1)
    for q, c in enumerate(pad(pout, n)):
        x, z = LET[c]
        v |= x << (2 * n + 2 * q)
        v |= z << (2 * n + 2 * q + 1)
    for r in recs:
        idx = r if r >= 0 else nm + r
        v |= 1 << (4 * n + idx)
    return v


def rank(vecs):
    piv = {}
    r = 0
    for v in vecs:
        while v:
            t = v.bit_length() - 1
            if t in piv:
                v ^= piv[t]
            else:
                piv[t] = v
                r += 1
                break
    return r


def choi_flows(specgens_line, rec_forms, n, nm):
    """complete basis of the circuit's flows: elements of the final Choi stabilizer group whose sign is a function of the record"""
    from vlib import equiv
    gens = []
    for item in specgens_line.split(' '):
        if '/' in item:
            form, bits = item.split('/')
            gens.append((stimtext.parse_form(form), bits))
    flows = []
    for bits, c, sh, recs in equiv.observable_stabilizers(gens, rec_forms, 0, 2 * n):
        pout, pin = bits[:n], bits[n:2 * n]
        ny = sum(1 for ch in pin if ch == 'Y')
        flows.append((c ^ (ny & 1), pin, pout, recs))
    return flows


def solve_check(rep, svh, rng, text, spec_flows, n, nm, choi, ir):
    queries = []
    for f in spec_flows[:3]:
        queries.append((f[0], f[1], f[2], []))
    for _ in range(2):
        queries.append(random_flow(rng, n, nm)[1][:3] + ([],))
    if rng.random() < 0.5:
        # (probably) unsolvable flows with Y terms placed before the solvable ones: eliminating them multiplies rows by i
        for _ in range(rng.choice([1, 2])):
            pin = ''.join(rng.choice('Y_YX') for _ in range(n))
            pout = ''.join(rng.choice('Y_YZ') for _ in range(n))
            queries.insert(rng.randrange(len(queries) + 1), (rng.randrange(2), pin, pout, []))
    queries = [q for q in queries if q[1].strip('_') or q[2].strip('_')]
    if not queries:
        return
    payload = text + '\n' + '\n'.join('@F ' + flow_text(q, n) for q in queries)
    try:
        so = svh.request('solveflows', [], payload)
    except core.Crash as e:
        rep.violation('solve_for_flow_measurements', 'crash', payload, str(e) + e.stderr[-800:])
        return
    if so and so[-1].startswith('ERR'):
        return
    # the answer for a flow must not depend on the other flows of the call
    if len(queries) > 1:
        for q, ans in zip(queries, so):
            try:
                one = svh.request('solveflows', [], text + '\n@F ' + flow_text(q, n))
            except core.Crash as e:
                rep.violation('solve_for_flow_measurements', 'crash', text + '\n@F ' + flow_text(q, n), str(e) + e.stderr[-800:])
                continue
            if one and not one[-1].startswith('ERR') and (one[0] == 'S none') != (ans == 'S none'):
                rep.violation('solve_for_flow_measurements', 'wrong-result',
                              {'circuit': text, 'flow': flow_text(q, n), 'batch': [flow_text(x, n) for x in queries], 'answers': list(so)},
                              'the same flow is reported solvable when asked alone and unsolvable inside this batch (or the reverse)', one[0], ans)
    # check answers through the specification: returned sets must make the flow true (unsigned, the solver ignores signs);
    # "none" must mean that no measurement set works
    probes = ['PROBE ' + ' '.join(flow_probe(pad(q[1], n), pad(q[2], n), n)) for q in queries]
    out = core.run_svm('spec %d 0 ; %s\n' % (2 * n, ' ; '.join(choi + list(ir.lines) + probes)), timeout=600)[0]
    sp = stimtext.parse_spec_out(out)
    pf = sp['probe'][-len(queries):]
    for q, ans, form in zip(queries, so, pf):
        rep.count(('c14-solve', text, flow_text(q, n)), nontrivial=ans != 'S none')
        if ans == 'S none':
            # no solution claimed: verify that the probe form is undetermined or not in the span of the record forms
            if form is not None:
                masks = [m for c, m in sp['rec']]
                if rank(masks + [form[1]]) == rank(masks):
                    rep.violation('solve_for_flow_measurements', 'wrong-result',
                                  {'circuit': text, 'flow': flow_text(q, n), 'batch': [flow_text(x, n) for x in queries], 'answers': list(so)},
                                  'reported no solution although a measurement set makes the flow true')
        else:
            ms = [int(x) for x in ans.split(' ')[1:]]
            sv, uv = spec_flow_holds((q[0], q[1], q[2], ms), form, sp['rec'], nm)
            if not uv:
                rep.violation('solve_for_flow_measurements', 'wrong-result', {'circuit': text, 'flow': flow_text(q, n)},
                              'returned measurement set %s does not make the flow true' % ms)


def replay(path):
    r = json.load(open(path))
    print(json.dumps(r, indent=1))
    return 0
