"""C09 — result data formats are lossless, mutually consistent, and safely decoded.
Tie H: implementation writers/readers (every entry point, W) vs (a) the documentation's reference encoders executed from
doc/result_formats.md and (b) the extracted Coq models (R8.v, B8.v, Formats.v) whose round trips are proved.
Hostile input runs under ASan+UBSan."""
import json

from vlib import core, docformats

FORMATS = ['01', 'b8', 'r8', 'hits', 'dets', 'ptb64']
WIDTHS = [0, 1, 7, 8, 9, 63, 64, 65, 254, 255, 256, 257, 263, 511, 512, 520, 1024, 1030]
ENTRIES = ['dense', 'sparse', 'major', 'minor', 'records_major', 'records_minor']


def patterns(rng, n):
    out = [[False] * n, [True] * n]
    if n:
        a = [False] * n
        a[0] = True
        out.append(a)
        a = [False] * n
        a[-1] = True
        out.append(a)
    out.append([rng.random() < 0.5 for _ in range(n)])
    out.append([rng.random() < 0.05 for _ in range(n)])
    out.append([rng.random() < 0.95 for _ in range(n)])
    # runs of exactly 254 / 255 / 256 / 510 zeros starting at every bit alignment
    for run in (247, 248, 254, 255, 256, 510):
        start = rng.randrange(8) + 8 * rng.randrange(3)
        if start + run + 1 < n:
            a = [False] * n
            a[start] = True
            a[start + run + 1] = True
            out.append(a)
        if run <= n:
            a = [True] * n
            s = rng.randrange(n - run + 1)
            for k in range(s, s + run):
                a[k] = False
            out.append(a)
    return out


def aligned_runs(n):
    """hit at a byte boundary followed by exactly 31 zero bytes (+/- one byte), every alignment of the first hit"""
    out = []
    for align in range(8):
        for zeros in (247 - align, 248, 254, 255, 256):
            a = [False] * n
            p = 8 + align
            if p + zeros + 1 < n:
                a[p] = True
                a[p + zeros + 1] = True
                out.append(a)
            if p + zeros < n:
                b = [False] * n
                b[p] = True
                out.append(b)
    return out


def bits_str(row):
    return ''.join('1' if b else '0' for b in row)


def payload_rows(rows):
    return '\n'.join(bits_str(r) or '-' for r in rows)


def run(rep, tier):
    quick = tier == 'quick'
    svh = core.Svh('o1')
    pr = core.prove(['Properties_C09.v'])
    rep.set_proof(pr)
    rep.trusted += ['Coq 8.16.1 kernel', 'extraction (ExtrOcamlBasic only) + runner/main.ml', 'harness/c09.cc',
                    'reference encoders/decoders executed from doc/result_formats.md', 'ASan/UBSan (hostile input)']
    rep.assumptions += ['dets and ptb64 are covered by correspondence with the documentation encoders and by the transpose/decimal '
                        'lemmas, not by a format-level round-trip theorem', 'memory safety on hostile input is measured under ASan, '
                        'not proved']
    rng = rep.rng()
    model_in = []
    model_meta = []

    # ---------- A. writers: every mode and W gives the documentation's bytes; per-record bytes equal the Coq model
    widths = WIDTHS if not quick else [0, 1, 8, 9, 64, 65, 255, 256, 257, 263, 512, 520, 1030]
    for n in widths:
        rows = patterns(rng, n)
        if n >= 300:
            rows += aligned_runs(n)
        for fmt in FORMATS:
            shots = rows
            if fmt == 'ptb64':
                shots = (rows * 64)[:64 * max(1, min(2, len(rows) // 32))]
                rng.shuffle(shots)
            splits = [(n, 0, 0)]
            if fmt == 'dets' and n >= 2:
                d = rng.randrange(n)
                splits = [(n, 0, 0), (0, d, n - d), (0, n, 0)]
            for (nm, nd, no) in splits:
                if fmt == 'dets':
                    expect = docformats.save('dets', shots, None if nm else nd, no)
                else:
                    expect = docformats.save(fmt, shots)
                for mode in ('bit', 'bytes', 'table', 'batch'):
                    if mode == 'table' and nm == 0 and nd == 0:
                        continue
                    if mode in ('bit', 'bytes') and fmt == 'ptb64':
                        continue       # ptb64 has no per-shot writer
                    W = rng.choice([64, 128, 256])
                    try:
                        out = svh.request('fmtw', [W, fmt, mode, nm, nd, no], payload_rows(shots))
                    except core.Crash as e:
                        rep.violation('writer:%s:%s' % (fmt, mode), 'crash', {'bits': n, 'shots': len(shots)}, str(e) + e.stderr[-1200:])
                        continue
                    rep.count(('w', fmt, mode, n, nm, nd, W), nontrivial=n % 64 != 0 or n >= 255)
                    if out[0].startswith('ERR'):
                        rep.violation('writer:%s:%s' % (fmt, mode), 'reject-valid', {'bits': n, 'split': [nm, nd, no]}, out[0])
                        continue
                    got = bytes.fromhex(out[0][4:])
                    if got != expect:
                        k = next((i for i in range(min(len(got), len(expect))) if got[i] != expect[i]), min(len(got), len(expect)))
                        bad_row = find_bad_row(fmt, shots, got, nm, nd, no)
                        rep.violation('writer:%s:%s' % (fmt, mode), 'wrong-result',
                                      {'format': fmt, 'mode': mode, 'W': W, 'split': [nm, nd, no], 'row': bad_row},
                                      'bytes differ from the documentation encoder at offset %d (bits per shot %d, %d shots)' % (k, n, len(shots)),
                                      expect[max(0, k - 8):k + 8].hex(), got[max(0, k - 8):k + 8].hex())
            # per-record Coq models (writer as implemented) vs documentation encoder
            if fmt in ('r8', 'b8', '01', 'hits'):
                for r in rows:
                    for mfmt in ([fmt] if fmt != 'r8' else ['r8', 'r8bytes', 'r8spec']):
                        model_in.append('fmtenc %s %s' % (mfmt, bits_str(r)))
                        model_meta.append((mfmt, r, docformats.save(fmt, [r])))
    mo = core.run_svm('\n'.join(model_in) + '\n', timeout=3000)
    for (mfmt, r, expect), got in zip(model_meta, mo):
        rep.count(('model-enc', mfmt, bits_str(r)), nontrivial=len(r) > 8)
        if bytes.fromhex(got) != expect:
            rep.broken_obligation('model-vs-documentation:' + mfmt,
                                  {'bits': bits_str(r), 'model': got, 'documentation': expect.hex()})
    rep.sample({'format': 'r8', 'bits': bits_str(patterns(rng, 20)[4]), 'model_bytes': mo[0] if mo else ''})

    # ---------- B. readers: every entry point returns the written bits
    for n in widths:
        rows = patterns(rng, n)[:9]
        for fmt in FORMATS:
            shots = rows
            if fmt == 'ptb64':
                shots = (rows * 64)[:64]
            splits = [(n, 0, 0)]
            if fmt == 'dets' and n >= 2:
                d = rng.randrange(n)
                splits = [(n, 0, 0), (0, d, n - d)]
            for (nm, nd, no) in splits:
                data = docformats.save('dets', shots, None if nm else nd, no) if fmt == 'dets' else docformats.save(fmt, shots)
                for entry in ENTRIES:
                    if entry == 'sparse' and no > 64:
                        pass
                    W = rng.choice([64, 128, 256])
                    try:
                        out = svh.request('fmtr', [W, fmt, entry, nm, nd, no, len(shots) + 3], data.hex())
                    except core.Crash as e:
                        rep.violation('reader:%s:%s' % (fmt, entry), 'crash', {'bits': n, 'hex': data.hex()[:400]}, str(e) + e.stderr[-1200:])
                        continue
                    rep.count(('r', fmt, entry, n, nm, nd, W), nontrivial=n % 64 != 0 or n >= 255)
                    got = [l[2:] for l in out if l.startswith('S ')]
                    want = [bits_str(r) for r in shots]
                    if n == 0 and fmt in ('b8', 'r8', 'ptb64') and entry in ('dense', 'sparse', 'major', 'minor', 'records_major', 'records_minor'):
                        # zero-width records in formats without separators: the number of records is not recoverable
                        if fmt != 'r8':
                            continue
                    if got != want or any(l.startswith('ERR') or l.startswith('B ') for l in out):
                        rep.violation('reader:%s:%s' % (fmt, entry), 'wrong-result',
                                      {'format': fmt, 'entry': entry, 'W': W, 'bits': n, 'split': [nm, nd, no], 'hex': data.hex()[:600]},
                                      'reading back written data does not return the written bits',
                                      want[:3], (got[:3], [l for l in out if not l.startswith('S ')][:2]))

    # ---------- C. stim convert between formats
    convert_matrix(rep, rng, quick)

    # ---------- D. hostile input under ASan/UBSan; per-record verdicts vs the Coq model readers
    hostile(rep, rng, 300 if quick else 6000)
    svh.close()
    rep.cov['rule'] = ('widths %s x patterns (zero, ones, ends, dense, sparse, runs of 247..256/510 zeros at every alignment) x 6 formats x '
                       'writer modes {bit, bytes, table, batch} x reader entries %s x W; convert matrix; hostile bytes under ASan. '
                       'Non-trivial = width not a multiple of 64 or >= 255.' % (widths, ENTRIES))


def find_bad_row(fmt, shots, got, nm, nd, no):
    if fmt not in ('r8', 'b8', '01', 'hits'):
        return None
    pos = 0
    for r in shots:
        e = docformats.save(fmt, [r])
        if got[pos:pos + len(e)] != e:
            return bits_str(r)
        pos += len(e)
    return None


def convert_matrix(rep, rng, quick):
    ns = [1, 9, 64, 257] if quick else [1, 7, 8, 9, 63, 64, 65, 255, 256, 257, 1030]
    for n in ns:
        rows = patterns(rng, n)[:8]
        conv = [f for f in FORMATS if f != 'ptb64']     # `stim convert` does not support ptb64 (documented restriction)
        for fin in conv:
            for fout in conv:
                shots = rows
                data = docformats.save(fin, shots)
                expect = docformats.save(fout, shots)
                size_arg = ['--num_measurements', str(n)] if 'dets' in (fin, fout) else ['--bits_per_shot', str(n)]
                rc, so, se = core.run_stim(['convert', '--in_format', fin, '--out_format', fout] + size_arg, data)
                rep.count(('convert', fin, fout, n), nontrivial=fin != fout)
                if rc != 0:
                    rep.violation('stim convert', 'reject-valid', {'in': fin, 'out': fout, 'bits': n}, se.decode()[-400:])
                elif so != expect:
                    rep.violation('stim convert', 'wrong-result', {'in': fin, 'out': fout, 'bits': n, 'hex_in': data.hex()[:400]},
                                  'converted data differs from the documentation encoding of the same table', expect[:32].hex(), so[:32].hex())


def hostile(rep, rng, count):
    asan = core.Svh('asan', timeout=120)
    model_in = []
    meta = []
    import os
    cpath = os.path.join(core.VERIF, 'corpus', 'C09.json')
    if os.path.exists(cpath):
        for c in json.load(open(cpath))['hostile']:
            for W in (64, 256):
                try:
                    asan.request('fmtr', [W, c['format'], c['entry'], c['nm'], c['nd'], c['no'], 6], c['hex'])
                    rep.count(('corpus', c['format'], c['entry'], c['hex'], W))
                except core.Crash as e:
                    rep.violation('reader:%s:%s' % (c['format'], c['entry']), 'oob' if 'Sanitizer' in e.stderr or 'runtime error' in e.stderr else 'crash',
                                  {'format': c['format'], 'entry': c['entry'], 'bits': [c['nm'], c['nd'], c['no']], 'hex': c['hex']},
                                  'reader failed on malformed input (corpus): ' + str(e) + e.stderr[-1500:])
    for k in range(count):
        fmt = rng.choice(FORMATS)
        n = rng.choice([0, 1, 3, 8, 9, 64, 65, 300])
        nm, nd, no = n, 0, 0
        if fmt == 'dets' and n >= 2 and rng.random() < 0.5:
            nd = rng.randrange(n)
            nm, no = 0, n - nd
        rows = patterns(rng, n)[:3]
        shots = rows if fmt != 'ptb64' else (rows * 64)[:64]
        base = docformats.save('dets', shots, None if nm else nd, no) if fmt == 'dets' else docformats.save(fmt, shots)
        kind = rng.choice(['truncate', 'flip', 'insert', 'random', 'bigindex', 'bigindex', 'delete'])
        data = bytearray(base)
        if kind == 'truncate' and data:
            data = data[:rng.randrange(len(data))]
        elif kind == 'flip' and data:
            for _ in range(rng.choice([1, 2, 3])):
                data[rng.randrange(len(data))] ^= 1 << rng.randrange(8)
        elif kind == 'insert':
            p = rng.randrange(len(data) + 1)
            data[p:p] = bytes(rng.choice([b'\n', b',', b'\r', b' ', b'-', b'9', b'D', b'L', b'M', b'shot', b'\xff', b'\x00', b'999999999999',
                                          b'18446744073709551616', b'30000000000000000000']))
        elif kind == 'random':
            data = bytearray(rng.randrange(256) for _ in range(rng.randrange(0, 24)))
        elif kind == 'bigindex':
            if fmt == 'hits':
                data = bytearray(b'%d\n' % rng.choice([n, n + 1, n + 63, n + 64, 1 << 20, (1 << 40)]))
            elif fmt == 'dets':
                data = bytearray(b'shot %s%d\n' % (rng.choice([b'D', b'L', b'M']), rng.choice([n, n + 1, n + 64, 1 << 20])))
            elif fmt == 'r8':
                data = bytearray([255] * rng.randrange(0, 4) + [rng.randrange(256) for _ in range(3)])
        elif kind == 'delete' and data:
            p = rng.randrange(len(data))
            del data[p]
        entry = rng.choice(ENTRIES)
        W = rng.choice([64, 128, 256])
        try:
            out = asan.request('fmtr', [W, fmt, entry, nm, nd, no, 6], bytes(data).hex())
        except core.Crash as e:
            rep.violation('reader:%s:%s' % (fmt, entry), 'oob' if 'Sanitizer' in e.stderr or 'runtime error' in e.stderr else 'crash',
                          {'format': fmt, 'entry': entry, 'bits': [nm, nd, no], 'hex': bytes(data).hex()},
                          'reader failed on malformed input: ' + str(e) + e.stderr[-1500:])
            continue
        rep.count(('hostile', fmt, entry, bytes(data).hex()), nontrivial=True)
        ok_lines = [l[2:] for l in out if l.startswith('S ') or l.startswith('B ')]
        for l in ok_lines:
            if len(l) != n:
                rep.violation('reader:%s:%s' % (fmt, entry), 'wrong-result', {'hex': bytes(data).hex()}, 'record of wrong width returned')
        if entry == 'dense' and fmt in ('r8', 'b8', '01', 'hits') and n > 0:
            model_in.append('fmtdec %s %d %s' % (fmt, n, bytes(data).hex()))
            meta.append((fmt, n, bytes(data), out))
    asan.close()
    mo = core.run_svm('\n'.join(model_in) + '\n', timeout=3000)
    for (fmt, n, data, out), m in zip(meta, mo):
        # first record verdict: model vs implementation
        first = out[0] if out else 'END'
        impl = 'S ' + first[2:] if first.startswith('S ') else ('EOF' if first == 'END' else 'BAD')
        model = m.split(' REST')[0] if m.startswith('S ') else m
        if fmt == 'b8' and model == 'BAD' and impl == 'EOF':
            continue
        if impl != model:
            rep.broken_obligation('model-reader-vs-implementation:' + fmt,
                                  {'bits_per_record': n, 'hex': data.hex(), 'implementation': first, 'model': m})


def replay(path):
    r = json.load(open(path))
    print(json.dumps(r, indent=1))
    return 0
