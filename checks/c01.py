"""C01 — single-shot stabilizer simulation obeys each gate's documented semantics.
Tie O: the record and every query answer of the real TableauSimulator<W> must be consistent (verified GF(2) solver)
with the symbolic-sign specification Spec.srun, whose gate semantics is the generated gate table.
Tie G (shared with C11): prepend routines / dispatch -> Gen_Prepend.v, see checks/c11.py."""
import json

from vlib import core, gatetable, gencirc, stimtext
from vlib.stimtext import Instr, T


def make_case(rng, gates, names, prof, nprobe):
    n, body = gencirc.gen_circuit(rng, gates, prof)
    nq = max(stimtext.num_qubits(body), 1)
    if prof.index_map:
        nq = max(nq, max(prof.index_map) + 1)
    # probes only between top-level instructions
    items = []
    for ins in body:
        items.append(('i', ins))
        if nprobe and rng.random() < 0.3:
            qs = rng.sample(range(nq), min(nq, rng.choice([1, 1, 2, 3])))
            used = [q for q in qs if True]
            if prof.index_map:
                used = [rng.choice(prof.index_map) for _ in qs]
                used = list(dict.fromkeys(used))
            terms = ['%d:%s' % (q, rng.choice('XYZ')) for q in used]
            items.append(('p', terms))
    if nprobe:
        for q in (range(nq) if not prof.index_map else prof.index_map[:n]):
            items.append(('p', ['%d:%s' % (q, rng.choice('XYZ'))]))
    return nq, items


def impl_payload(items):
    lines = []
    for k, v in items:
        if k == 'i':
            lines.append(v.text())
        else:
            lines.append('@PROBE ' + ' '.join(v))
    return '\n'.join(lines)


def spec_lines(items, names, nsweep):
    """spec instruction list with PROBE lines at the right places"""
    out = []
    nmeas = 0
    for k, v in items:
        if k == 'i':
            flat = stimtext.flatten([v])
            ir = stimtext.to_spec(flat, names, nsweep=nsweep, noise=False)
            out += ir.lines
            nmeas += ir.num_meas
        else:
            out.append('PROBE ' + ' '.join(v))
    return out, nmeas


def fmt_form(f):
    return '%d:%x' % f


def free_indices(forms, base):
    """indices whose coin part is not in the span of the earlier coin parts (record-independent)"""
    piv = {}
    free = []
    for k, (c, m) in enumerate(forms):
        v = m >> base
        while v:
            t = v.bit_length() - 1
            if t in piv:
                v ^= piv[t]
            else:
                piv[t] = v
                free.append(k)
                break
    return free


def run(rep, tier):
    quick = tier == 'quick'
    svh = core.Svh('o1')
    gates, hashes = gatetable.regenerate(svh)
    names = stimtext.Names(gates)
    from checks import c11
    pr = c11.prove_shared(['Properties_C01.v'])
    rep.set_proof(pr)
    rep.trusted += ['Coq 8.16.1 kernel incl. vm_compute', 'vlib translators (gate table dump, prepend routines, dispatch)',
                    'extraction (ExtrOcamlBasic only) + runner/main.ml', 'vlib/stimtext.py (circuit -> Spec.sinstr list)',
                    'harness/c01.cc', 'standard stabilizer-formalism measurement rule for n > 2 qubits (DESIGN §6)']
    rng = rep.rng()
    N = 500 if quick else 20000
    cases = []
    NS = 3
    for k in range(N):
        r = rng.random()
        if r < 0.75:
            prof = gencirc.Profile(sweep=True)
        elif r < 0.9:
            prof = gencirc.Profile(sweep=True, index_map=rng.choice([[63, 64, 65, 0, 1], [127, 128, 129, 64, 2],
                                                                     [255, 256, 257, 300, 1]]), len_range=(3, 14))
        else:
            prof = gencirc.Profile(n_choices=[6, 8, 12], len_range=(20, 60), sweep=True)
        nq, items = make_case(rng, gates, names, prof, True)
        W = rng.choice([64, 128, 256])
        cases.append((nq, items, W, rng.randrange(1 << 30), rng.choice([0, 0, 0, 1, -1])))
    # ---- specification side
    spec_in = []
    for nq, items, W, seed, bias in cases:
        lines, nmeas = spec_lines(items, names, NS)
        spec_in.append('spec %d %d ; %s' % (nq, NS, ' ; '.join(lines)))
    spec_out = core.run_svm('\n'.join(spec_in) + '\n', timeout=3000)
    # ---- implementation side and consistency systems
    cons_in = []
    meta = []
    for idx, (nq, items, W, seed, bias) in enumerate(cases):
        payload = impl_payload(items)
        so = spec_out[idx]
        if so.startswith('EXN'):
            rep.broken_obligation('spec-run', {'case': payload, 'error': so})
            continue
        sp = stimtext.parse_spec_out(so)
        try:
            out = svh.request('tsim', [W, seed, bias, nq], payload)
        except core.Crash as e:
            rep.violation('TableauSimulator<%d>::safe_do_circuit' % W, 'crash', payload, str(e) + e.stderr[-1500:])
            continue
        if out and out[-1].startswith('ERR'):
            rep.violation('TableauSimulator<%d>::safe_do_circuit' % W, 'reject-valid', payload,
                          'valid circuit rejected: ' + out[-1])
            continue
        probes = [l.split(' ') for l in out if l.startswith('P ')]
        rec = [l for l in out if l.startswith('REC')][0][4:]
        ep = 'TableauSimulator<%d>' % W
        free = free_indices(sp['rec'], NS)
        fixed_nonzero = any(k not in free and rec[k] == '1' for k in range(min(len(rec), len(sp['rec']))))
        rep.count(('c01', payload, seed, bias), nontrivial=bool(free) and fixed_nonzero)
        if len(rec) != len(sp['rec']):
            rep.violation(ep + '::measurement_record', 'wrong-result', payload, 'number of results differs from the documented count',
                          len(sp['rec']), len(rec))
            continue
        if len(probes) != len(sp['probe']):
            rep.broken_obligation('probe-alignment', payload)
            continue
        eqs = ['%s=%s' % (fmt_form(f), b) for f, b in zip(sp['rec'], rec)]
        bad = False
        for pk, (pl, sf) in enumerate(zip(probes, sp['probe'])):
            e, m, single = int(pl[1]), int(pl[2]), pl[3]
            if (sf is None) != (e == 0):
                rep.violation(ep + '::peek_observable_expectation', 'wrong-result', payload,
                              'probe %d: determinism differs from the specification' % pk,
                              'random' if sf is None else 'determined', e)
                bad = True
                continue
            if sf is not None:
                eqs.append('%s=%d' % (fmt_form(sf), 1 if e == -1 else 0))
                if m != (1 if e == -1 else 0):
                    rep.violation(ep + '::measure_pauli_string', 'wrong-result', payload,
                                  'probe %d: observable reported as fixed (%d) but then measured as %d' % (pk, e, m), e, m)
                    bad = True
            if single != '-':
                pe, det, be = [int(x) for x in single.split(',')]
                if pe != e or det != (1 if e != 0 else 0) or be != e:
                    rep.violation(ep + '::peek_x/y/z,is_deterministic_*,peek_bloch', 'wrong-result', payload,
                                  'probe %d: single-qubit queries disagree with the product query' % pk, e, single)
                    bad = True
        for v in range(NS):
            eqs.append('0:%x=0' % (1 << v))     # TableauSimulator treats sweep bits as false
        cons_in.append('consistent %d ; %s' % (sp['ncoins'], ' ; '.join(eqs)))
        meta.append((idx, payload, rec, W, seed, bias, sp))
    cons_out = core.run_svm('\n'.join(cons_in) + '\n', timeout=3000)
    for (idx, payload, rec, W, seed, bias, sp), verdict in zip(meta, cons_out):
        if verdict != '1':
            rep.violation('TableauSimulator<%d>::safe_do_circuit' % W, 'wrong-result', payload,
                          'record / query answers are not an outcome the circuit can produce (seed %d, sign_bias %d): '
                          'the system {form_k(coins) = bit_k} is unsolvable' % (seed, bias),
                          {'forms': [fmt_form(f) for f in sp['rec']]}, rec)
    if meta:
        rep.sample({'circuit': meta[0][1], 'record': meta[0][2], 'W': meta[0][3]})
        rep.sample({'circuit': meta[-1][1], 'record': meta[-1][2], 'W': meta[-1][3]})

    # ---- free measurements come out both ways; other entry points; CLI
    M = 60 if quick else 1500
    other_paths(rep, svh, rng, gates, names, M, NS)
    folded_reference_samples(rep, svh, rng, gates, names, 80 if quick else 1500)
    from checks import gdecomp
    gdecomp.run(rep, svh, rng, 1500 if quick else 40000)
    svh.close()
    rep.cov['rule'] = ('random noiseless circuits over every unitary gate/alias, M/MX/MY/MR*/R*, MXX/MYY/MZZ, MPP, SPP, MPAD, feedback, '
                       'sweep, REPEAT, `!`, repeated/overlapping targets, indices straddling 64/128/256; probes after random '
                       'instructions. Non-trivial = at least one free and one record-fixed non-zero measurement.')


def other_paths(rep, svh, rng, gates, names, M, NS):
    spec_in = []
    cases = []
    for k in range(M):
        prof = gencirc.Profile(sweep=False, len_range=(3, 16))
        n, body = gencirc.gen_circuit(rng, gates, prof)
        nq = max(stimtext.num_qubits(body), 1)
        flat = stimtext.flatten(body)
        ir = stimtext.to_spec(flat, names, nsweep=0, noise=False)
        spec_in.append(stimtext.spec_cmd(nq, ir))
        cases.append((nq, body))
    spec_out = core.run_svm('\n'.join(spec_in) + '\n', timeout=3000)
    cons_in = []
    meta = []
    for (nq, body), so in zip(cases, spec_out):
        sp = stimtext.parse_spec_out(so)
        text = stimtext.circuit_text(body)
        W = rng.choice([64, 128, 256])
        recs = []
        for s in range(40):
            out = svh.request('tsim', [W, rng.randrange(1 << 30), 0, nq], text)
            recs.append(('tsim seed', [l for l in out if l.startswith('REC')][0][4:]))
        for bias in (1, -1):
            out = svh.request('tsim', [W, 5, bias, nq], text)
            recs.append(('tsim bias %d' % bias, [l for l in out if l.startswith('REC')][0][4:]))
        out = svh.request('tsample', [W, rng.randrange(1 << 30), 0, 'sample'], text)
        recs.append(('TableauSimulator::sample_circuit', out[0][4:]))
        out = svh.request('tsample', [W, 0, 0, 'reference'], text)
        recs.append(('TableauSimulator::reference_sample_circuit', out[0][4:]))
        rc, so_, se_ = core.run_stim(['sample', '--shots', '1', '--seed', str(rng.randrange(1 << 30))], text.encode())
        if rc != 0:
            rep.violation('stim sample --shots 1', 'reject-valid', text, se_.decode()[-500:])
        else:
            recs.append(('stim sample --shots 1', so_.decode().strip()))
        free = free_indices(sp['rec'], 0)
        rep.count(('c01-paths', text), nontrivial=bool(free))
        for k in free:
            vals = set(r[k] for nm, r in recs[:40] if len(r) == len(sp['rec']))
            if len(vals) < 2:
                rep.violation('TableauSimulator<%d>::safe_do_circuit' % W, 'biased', text,
                              'measurement %d is not fixed by the earlier record yet took the value %s in all of 40 seeds' % (k, vals))
        for nm, r in recs:
            if len(r) != len(sp['rec']):
                rep.violation(nm, 'wrong-result', text, 'record length', len(sp['rec']), len(r))
                continue
            cons_in.append('consistent %d ; %s' % (sp['ncoins'], ' ; '.join('%s=%s' % (fmt_form(f), b) for f, b in zip(sp['rec'], r))))
            meta.append((nm, text, r))
    cons_out = core.run_svm('\n'.join(cons_in) + '\n', timeout=3000)
    for (nm, text, r), verdict in zip(meta, cons_out):
        if verdict != '1':
            rep.violation(nm, 'wrong-result', text, 'record is not an outcome the circuit can produce', None, r)


def folded_reference_samples(rep, svh, rng, gates, names, count):
    """reference samples of circuits with long REPEAT blocks (the loop-folding path: ReferenceSampleTree, the record replayed for
    skipped iterations) and feedback that looks back across the loop: the reported record must be an outcome of the unrolled circuit"""
    from checks import c06
    I, T = stimtext.Instr, stimtext.T
    spec_in = []
    cases = []
    for k in range(count):
        if k % 4 == 3:
            # pre-loop results that differ from the periodic content; feedback after the loop with a long lookback
            n = rng.choice([2, 3])
            per = rng.choice([1, 1, 2])
            pre = [I('X', [], [T('q', 0)])] if rng.random() < 0.7 else []
            pre += [I('M', [], [T('q', 0)]) for _ in range(rng.choice([1, 2, 3]))]
            lb = [I(rng.choice(['M', 'MR', 'MX']), [], [T('q', rng.randrange(1, n))]) for _ in range(per)]
            if rng.random() < 0.3:
                lb.insert(0, I(rng.choice(['H', 'X', 'S']), [], [T('q', rng.randrange(1, n))]))
            reps = rng.choice([10, 11, 20, 37, 100, 300])
            npre = sum(len(i.targets) for i in pre if i.name == 'M')
            post = []
            for _ in range(rng.choice([1, 2, 3])):
                post.append(I(rng.choice(['CX', 'CY', 'CZ']), [], [T('rec', rng.randint(1, min(per * reps + npre, 2 * per + 3))), T('q', rng.randrange(n))]))
            post.append(I('M', [], [T('q', q) for q in range(n)]))
            body = pre + [I('REPEAT', body=lb, reps=reps)] + post
            if rng.random() < 0.3:
                body = [I('REPEAT', body=body, reps=rng.choice([2, 3]))]
        else:
            body = c06.strip_noise_and_annotations(c06.loop_case(rng, gates, names), names)
            body = [i for i in body if not (i.name.startswith('M') and i.args)]
        try:
            flat = stimtext.flatten(body, limit=30000)
        except Exception:
            continue
        nq = max(stimtext.num_qubits(body), 1)
        ir = stimtext.to_spec(flat, names, nsweep=0, noise=False, with_annotations=False)
        spec_in.append(stimtext.spec_cmd(nq, ir))
        cases.append(body)
    spec_out = core.run_svm_sharded(spec_in, timeout=3000)
    cons_in = []
    meta = []
    for body, so in zip(cases, spec_out):
        if so.startswith('EXN'):
            continue
        sp = stimtext.parse_spec_out(so)
        text = stimtext.circuit_text(body)
        out = svh.request('refsample', [rng.choice([64, 128, 256])], text)
        recs = []
        if len(out) < 3 or out[-1].startswith('ERR'):
            rep.violation('ReferenceSampleTree::from_circuit_reference_sample', 'reject-valid', text, (out[-1] if out else '')[:300])
        else:
            recs.append(('TableauSimulator::reference_sample_circuit', out[0][4:]))
            recs.append(('ReferenceSampleTree::from_circuit_reference_sample (loop folding)', out[1][5:]))
        rc, so_, se_ = core.run_stim(['sample', '--shots', '1', '--seed', str(rng.randrange(1 << 30))], text.encode())
        if rc == 0:
            recs.append(('stim sample --shots 1', so_.decode().strip()))
        reps = max([i.reps for i in body if i.name == 'REPEAT'] + [0])
        rep.count(('c01-folded', text), nontrivial=reps >= 10)
        for nm, r in recs:
            if len(r) != len(sp['rec']):
                rep.violation(nm, 'wrong-result', text, 'record length', len(sp['rec']), len(r))
                continue
            cons_in.append('consistent %d ; %s' % (sp['ncoins'], ' ; '.join('%s=%s' % (fmt_form(f), b) for f, b in zip(sp['rec'], r))))
            meta.append((nm, text, r))
    cons_out = core.run_svm_sharded(cons_in, timeout=3000)
    for (nm, text, r), verdict in zip(meta, cons_out):
        if verdict != '1':
            rep.violation(nm, 'wrong-result', text, 'reference sample is not an outcome the circuit can produce', None, r[:400])


def replay(path):
    r = json.load(open(path))
    print(json.dumps(r, indent=1))
    return 0
