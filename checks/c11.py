"""C11 — tableau algebra and Clifford conversions are exact, signs included.
Proofs: Tab.eval_hom (a tableau with Hermitian rows and canonical commutation relations is a phase-exact homomorphism, any n),
generated prepend obligations (every Tableau::prepend_* realises the gate table action), table inverse ids, Collapse.A0inv.
Tie H/O: every algebraic operation of the real Tableau<W> is recomputed from the printed operands with the XZ-form Pauli
algebra of Pauli.v (vlib/pauli.py; the product rule is cross-checked against the extracted Coq product), and every conversion
against the specification's gate action (extracted Act.run1/run2)."""
import json

from vlib import core, gatetable, gencirc, pauli, stimtext


def prove_shared(prop_files):
    from vlib import setup
    setup.regenerate_all()
    return core.prove(prop_files)


def tab_of(line):
    t = line.split(' ')
    return pauli.Tab.from_dump(t[1:]), t[2] == '1'


def run(rep, tier):
    quick = tier == 'quick'
    svh = core.Svh('o1', timeout=120)
    gates, hashes = gatetable.regenerate(svh)
    names = stimtext.Names(gates)
    rep.set_proof(prove_shared(['Properties_C11.v']))
    rep.trusted += ['Coq 8.16.1 kernel', 'vlib translators (prepend routines)', 'extraction + runner/main.ml',
                    'vlib/pauli.py (XZ-form product of Pauli.v, cross-checked against the extracted product on every run)', 'harness/c11.cc']
    rep.assumptions += ['then/inverse/raised_to/scatter are tied by recomputation from printed operands, not modelled in Coq; unitary and '
                        'state-vector conversions are checked by round trip only (float amplitudes)']
    rng = rep.rng()

    # cross-check of the driver's Pauli product against the extracted Coq product (Stab.ph / bxor)
    pairs = []
    for _ in range(200):
        n = rng.choice([1, 2, 5, 9])
        a = rng.choice('+-') + ''.join(rng.choice('_XYZ') for _ in range(n))
        b = rng.choice('+-') + ''.join(rng.choice('_XYZ') for _ in range(n))
        pairs.append((a, b))
    mo = core.run_svm(''.join('mul %s %s\n' % p for p in pairs))
    for (a, b), m in zip(pairs, mo):
        k, bits = m.split(' ')
        pr = pauli.P.from_str(a) * pauli.P.from_str(b)
        # model: a*b = i^k * bits (hermitian, sign +)
        want = pauli.P.from_str(bits)
        want = pauli.P(want.k + int(k), want.x, want.z, want.n)
        if (pr.k, pr.x, pr.z) != (want.k, want.x, want.z):
            rep.broken_obligation('driver-pauli-product-vs-Coq', {'a': a, 'b': b, 'coq': m})

    # ---------- A. algebra
    sizes = [1, 2, 3, 5, 63, 64, 65, 127, 129] if not quick else [1, 2, 3, 5, 64, 65]
    NA = 120 if quick else 5000
    for _ in range(NA):
        n = rng.choice(sizes)
        m = rng.choice([1, 2, 3]) if n >= 3 else 1
        W = rng.choice([64, 128, 256])
        e = rng.choice([-3, -1, 0, 1, 2, 3, 5, 12, 1000001])
        seed = rng.randrange(1 << 30)
        try:
            out = svh.request('tabalg', [W, seed, n, m, e])
        except core.Crash as ex:
            rep.violation('Tableau<%d> algebra' % W, 'crash', {'seed': seed, 'n': n, 'm': m}, str(ex) + ex.stderr[-800:])
            continue
        d = {}
        for l in out:
            key = l.split(' ')[0]
            d[key] = l
        cell = {'W': W, 'seed': seed, 'n': n, 'm': m, 'exponent': e}
        rep.count(('c11-a', W, seed, n, m, e), nontrivial=(n % W != 0))
        A, okA = tab_of(d['A'])
        B, okB = tab_of(d['B'])
        C, okC = tab_of(d['C'])
        for nm in ('A', 'B', 'C', 'A.then(B)', 'A.inverse', 'A.raised_to', 'A+C', 'scatter_append', 'scatter_prepend'):
            if nm in d:
                T, ok = tab_of(d[nm])
                if not ok or not T.is_valid():
                    rep.violation('Tableau<%d>::%s' % (W, nm), 'wrong-result', cell, 'result is not a valid Clifford tableau (commutation relations)')
        AB, _ = tab_of(d['A.then(B)'])
        if not AB.same(A.then(B)):
            rep.violation('Tableau<%d>::then' % W, 'wrong-result', cell, '(A.then(B))(P) must be B(A(P)) on every generator, signs included',
                          A.then(B).rows()[:4], AB.rows()[:4])
        Ainv, _ = tab_of(d['A.inverse'])
        if not A.then(Ainv).same(pauli.ident_tab(n)) or not Ainv.then(A).same(pauli.ident_tab(n)):
            rep.violation('Tableau<%d>::inverse' % W, 'wrong-result', cell, 'T.then(T^-1) is not the identity')
        Ae, _ = tab_of(d['A.raised_to'])
        # repeated squaring reference
        base = A if e >= 0 else Ainv
        k = abs(e)
        ref = pauli.ident_tab(n)
        sq = base
        while k:
            if k & 1:
                ref = ref.then(sq)
            sq = sq.then(sq)
            k >>= 1
        if not Ae.same(ref):
            rep.violation('Tableau<%d>::raised_to' % W, 'wrong-result', cell, 'A^%d differs from repeated composition' % e, ref.rows()[:4], Ae.rows()[:4])
        AC, _ = tab_of(d['A+C'])
        exp_rows = []
        ok_sum = AC.n == n + m
        if ok_sum:
            for i in range(n):
                ok_sum = ok_sum and AC.xs[i].hermitian_str() == A.xs[i].hermitian_str() + '_' * m and AC.zs[i].hermitian_str() == A.zs[i].hermitian_str() + '_' * m
            for i in range(m):
                sx = C.xs[i].hermitian_str()
                sz = C.zs[i].hermitian_str()
                ok_sum = ok_sum and AC.xs[n + i].hermitian_str() == sx[0] + '_' * n + sx[1:] and AC.zs[n + i].hermitian_str() == sz[0] + '_' * n + sz[1:]
        if not ok_sum:
            rep.violation('Tableau<%d>::operator+' % W, 'wrong-result', cell, 'direct sum is not block diagonal with the operands')
        Pp = pauli.P.from_str(d['P'].split(' ')[1])
        Qp = pauli.P.from_str(d['Q'].split(' ')[1])
        for nm, pp in (('A(P)', Pp), ('A(Q)', Qp)):
            if d[nm].split(' ')[1] != A.apply(pp).hermitian_str():
                rep.violation('Tableau<%d>::operator()' % W, 'wrong-result', cell, 'applying the tableau to a Pauli string differs from the product of '
                              'generator images', A.apply(pp).hermitian_str(), d[nm].split(' ')[1])
        if 'A(PQ)' in d:
            pq = Pp * Qp
            if d['PQ'].split(' ')[1] != pq.hermitian_str():
                rep.violation('PauliString<%d>::operator*=' % W, 'wrong-result', cell, 'product differs', pq.hermitian_str(), d['PQ'].split(' ')[1])
            lhs = A.apply(pq).hermitian_str()
            rhs = (A.apply(Pp) * A.apply(Qp)).hermitian_str()
            if lhs != rhs or d['A(PQ)'].split(' ')[1] != lhs:
                rep.violation('Tableau<%d>::operator()' % W, 'wrong-result', cell, 'T(PQ) != T(P)T(Q)', rhs, d['A(PQ)'].split(' ')[1])
        if 'TARGETS' in d:
            ts = [int(x) for x in d['TARGETS'].split(' ')[1:]]
            # embed C on the chosen qubits of an n-qubit identity
            def embed(p):
                x = z = 0
                for j, t in enumerate(ts):
                    x |= ((p.x >> j) & 1) << t
                    z |= ((p.z >> j) & 1) << t
                return pauli.P(p.k, x, z, n)
            E = pauli.ident_tab(n)
            for j, t in enumerate(ts):
                E.xs[t] = embed(C.xs[j])
                E.zs[t] = embed(C.zs[j])
            SA, _ = tab_of(d['scatter_append'])
            SP, _ = tab_of(d['scatter_prepend'])
            if not SA.same(A.then(E)):
                rep.violation('Tableau<%d>::inplace_scatter_append' % W, 'wrong-result', cell, 'appending an embedded operation differs from A.then(embedded)')
            if not SP.same(E.then(A)):
                rep.violation('Tableau<%d>::inplace_scatter_prepend' % W, 'wrong-result', cell, 'prepending an embedded operation differs from embedded.then(A)')
    rep.sample({'operands': out[:2] if out else None})

    conversions(rep, svh, rng, gates, names, 100 if quick else 4000)
    stabilizer_lists(rep, svh, rng, 120 if quick else 5000)
    svh.close()
    rep.cov['rule'] = ('A: random tableaus (Tableau::random) of sizes %s, exponents incl. negative and 10^6, direct sums, scatter onto random '
                       'qubits, W in {64,128,256}; B: unitary circuits over every gate -> tableau (vs the extracted gate action) -> circuit by '
                       'every synthesis method -> tableau; inverse circuits; unitary/state-vector round trips for n <= 4; C: stabilizer '
                       'lists incl. anticommuting / contradictory / redundant / underconstrained. Non-trivial = size not a multiple of W.' % sizes)


def unitary_circuit(rng, gates, n, length):
    u1, u2 = gencirc.gate_pools(gates)
    lines = []
    for _ in range(length):
        if n >= 2 and rng.random() < 0.5:
            g = rng.choice(u2)
            ts = []
            for _ in range(rng.choice([1, 1, 2])):
                a, b = rng.sample(range(n), 2)
                ts += [a, b]
            lines.append('%s %s' % (rng.choice([g.name] + g.aliases), ' '.join(map(str, ts))))
        else:
            g = rng.choice(u1)
            lines.append('%s %s' % (rng.choice([g.name] + g.aliases), ' '.join(str(rng.randrange(n)) for _ in range(rng.choice([1, 2])))))
    if rng.random() < 0.3:
        k = rng.randrange(len(lines))
        lines = lines[:k] + ['REPEAT %d {' % rng.choice([2, 3])] + lines[k:k + 2] + ['}'] + lines[k + 2:]
    return lines


def spec_tableau(lines, n):
    """rows of the tableau of a circuit by conjugating each generator through the extracted gate action"""
    flat = []
    stack = []
    for l in lines:
        if l.startswith('REPEAT'):
            stack.append((int(l.split()[1]), []))
        elif l == '}':
            reps, body = stack.pop()
            (stack[-1][1] if stack else flat).extend(body * reps)
        else:
            (stack[-1][1] if stack else flat).append(l)
    canon = ' ; '.join(flat)
    cmds = []
    for i in range(n):
        for c in 'XZ':
            s = '+' + '_' * i + c + '_' * (n - 1 - i)
            cmds.append('conjc %s | %s' % (s, canon))
    return core.run_svm('\n'.join(cmds) + '\n')[:2 * n]


def conversions(rep, svh, rng, gates, names, count):
    for _ in range(count):
        n = rng.choice([1, 2, 3, 4, 6, 9])
        lines = unitary_circuit(rng, gates, n, rng.randint(2, 14))
        lines.append('I %d' % (n - 1))          # fixes the qubit count
        text = '\n'.join(lines)
        W = rng.choice([64, 128, 256])
        want_rows = spec_tableau(lines, n)
        for method in ('elimination', 'graph_state', 'mpp_state', 'mpp_state_unsigned'):
            try:
                out = svh.request('tabconv', [W, method], text)
            except core.Crash as e:
                rep.violation('tableau_to_circuit(%s)' % method, 'crash', text, str(e) + e.stderr[-800:])
                continue
            if out and out[-1].startswith('ERR'):
                rep.violation('circuit<->tableau (%s)' % method, 'reject-valid', text, out[-1][:300])
                continue
            d = {l.split(' ')[0]: l for l in out}
            rep.count(('c11-conv', text, method), nontrivial=True)
            T, ok = tab_of(d['T'])
            if T.rows() != want_rows:
                rep.violation('circuit_to_tableau<%d>' % W, 'wrong-result', text, 'tableau rows differ from conjugating the generators through the '
                              'documented gate actions', want_rows[:4], T.rows()[:4])
                break
            Tinv, _ = tab_of(d['TINV'])
            if not T.then(Tinv).same(pauli.ident_tab(n)):
                rep.violation('circuit_to_tableau<%d>(inverse=true)' % W, 'wrong-result', text, 'not the inverse tableau')
            Tci, _ = tab_of(d['TCINV'])
            if not Tci.same(Tinv):
                rep.violation('Circuit::inverse', 'wrong-result', text, 'the inverse circuit does not implement the inverse Clifford')
            if method == 'elimination':
                T2, _ = tab_of(d['T2'])
                if not T2.same(T):
                    rep.violation('tableau_to_circuit(elimination)', 'wrong-result', text, 'synthesised circuit has a different tableau',
                                  T.rows()[:4], T2.rows()[:4])
            else:
                # state-preparation methods: the synthesised circuit must prepare the same stabilizer state: T(Z_k) are stabilizers
                circ = d['CIRCUIT'][8:].replace(';', '\n')
                stabs = [T.zs[k].hermitian_str() for k in range(n)]
                if method == 'mpp_state_unsigned':
                    stabs = ['+' + s[1:] for s in stabs]
                payload = circ + '\n' + '\n'.join('@PROBE ' + ' '.join('%d:%s' % (q, c) for q, c in enumerate(s[1:]) if c != '_') + (' -' if s[0] == '-' else '')
                                                  for s in stabs if any(c != '_' for c in s[1:]))
                o2 = svh.request('tsim', [W, 1, 0, n], payload)
                probes = [l.split(' ')[1] for l in o2 if l.startswith('P ')]
                if o2 and o2[-1].startswith('ERR'):
                    rep.violation('tableau_to_circuit(%s)' % method, 'wrong-result', text, 'synthesised circuit cannot be simulated: ' + o2[-1][:200])
                elif method != 'mpp_state_unsigned' and any(p != '1' for p in probes):
                    rep.violation('tableau_to_circuit(%s)' % method, 'wrong-result', text,
                                  'the synthesised circuit does not prepare the stabilizer state of the tableau (expectations %s)' % probes)
                elif method == 'mpp_state_unsigned' and any(p == '0' for p in probes):
                    rep.violation('tableau_to_circuit(%s)' % method, 'wrong-result', text, 'a stabilizer of the tableau is not determined after the synthesised circuit')
            for k in ('TU_BE', 'TU_LE'):
                if k in d:
                    T3, _ = tab_of(d[k])
                    if not T3.same(T):
                        rep.violation('tableau_to_unitary / unitary_to_tableau', 'wrong-result', text, 'round trip through the unitary matrix (%s) changes the tableau' % k)
            if 'STATEVEC' in d and d['STATEVEC'].split(' ')[1] != '1':
                rep.violation('stabilizer_state_vector_to_circuit', 'wrong-result', text, 'round trip through the state vector changes the state')


def stabilizer_lists(rep, svh, rng, count):
    for _ in range(count):
        n = rng.choice([1, 2, 3, 4, 6, 65])
        W = rng.choice([64, 128, 256])
        seed = rng.randrange(1 << 30)
        out = svh.request('tabalg', [W, seed, n, 1, 1])
        A, _ = tab_of([l for l in out if l.startswith('A ')][0])
        stabs = [A.zs[k] for k in range(n)]
        # random invertible mixing of the generators keeps the group
        mixed = []
        for k in range(n):
            p = stabs[k]
            for j in range(n):
                if j != k and rng.random() < 0.3:
                    p = p * stabs[j]
            mixed.append(p)
        kind = rng.choice(['valid', 'valid', 'redundant', 'under', 'under_redundant', 'under_redundant', 'anticommuting', 'contradictory'])
        lst = [p.hermitian_str() for p in stabs]      # independent by construction
        allow_red = rng.random() < 0.5
        allow_under = rng.random() < 0.5
        expect_err = False
        if kind == 'redundant' and n >= 2:
            lst.append((stabs[0] * stabs[1]).hermitian_str())
            expect_err = not allow_red
        elif kind == 'under' and n >= 2:
            lst = lst[:-1]
            expect_err = not allow_under
        elif kind == 'under_redundant' and n >= 2:
            # rank below n, but the list is padded with redundant entries (repeats, products, identities) to length >= n
            lst = lst[:-rng.choice([1, 1, 2]) or None] if n >= 3 else lst[:-1]
            while len(lst) < n + rng.choice([0, 0, 1]):
                how = rng.random()
                if how < 0.4 or len(lst) < 2:
                    lst.append(rng.choice(lst) if lst else '+' + '_' * n)
                elif how < 0.8:
                    a, b = rng.sample(range(len(lst)), 2)
                    lst.append((pauli.P.from_str(lst[a]) * pauli.P.from_str(lst[b])).hermitian_str())
                else:
                    lst.append('+' + '_' * n)
            rng.shuffle(lst)
            expect_err = not (allow_red and allow_under)
        elif kind == 'anticommuting':
            lst[0] = A.xs[0].hermitian_str()
            lst.append(A.zs[0].hermitian_str())
            expect_err = True
        elif kind == 'contradictory':
            s = lst[0]
            lst.append(('-' if s[0] == '+' else '+') + s[1:])
            expect_err = True
        try:
            o = svh.request('stab2tab', [W, int(allow_red), int(allow_under), 0], '\n'.join(lst))
        except core.Crash as e:
            rep.violation('stabilizers_to_tableau<%d>' % W, 'crash', lst, str(e) + e.stderr[-800:])
            continue
        rep.count(('c11-stab', tuple(lst), allow_red, allow_under), nontrivial=kind != 'valid')
        err = o[-1].startswith('ERR')
        cell = {'stabilizers': lst if n < 10 else lst[:2] + ['...'], 'allow_redundant': allow_red, 'allow_underconstrained': allow_under, 'kind': kind}
        if expect_err and not err:
            rep.violation('stabilizers_to_tableau<%d>' % W, 'accept-invalid', cell, 'invalid stabilizer list (%s) accepted' % kind)
        elif not expect_err and err:
            rep.violation('stabilizers_to_tableau<%d>' % W, 'reject-valid', cell, 'valid stabilizer list rejected: ' + o[-1][:200])
        elif not err:
            T, ok = tab_of(o[0])
            if not ok or not T.is_valid():
                rep.violation('stabilizers_to_tableau<%d>' % W, 'wrong-result', cell, 'result is not a valid tableau')
                continue
            # every given stabilizer must be +1 on the state T|0>: it must be a product of T(Z_k) with sign +
            Tinv_rows = None
            for s in lst:
                p = pauli.P.from_str(s)
                # express p in the basis: p commutes with all T(Z_k) and equals a product of them
                acc = pauli.identity(T.n)
                for k in range(T.n):
                    if not p.commutes(T.xs[k]):
                        acc = acc * T.zs[k]
                if (acc.x, acc.z) != (p.x, p.z) or acc.hermitian_str() != pauli.P(p.k, p.x, p.z, T.n).hermitian_str():
                    rep.violation('stabilizers_to_tableau<%d>' % W, 'wrong-result', cell, 'stabilizer %s is not a +1 stabilizer of the returned tableau\'s state' % s)
                    break


def replay(path):
    r = json.load(open(path))
    print(json.dumps(r, indent=1))
    return 0
