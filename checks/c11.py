"""placeholder: shared proof helper (filled in with the C11 check)"""
from vlib import core


def prove_shared(prop_files):
    from vlib import setup
    setup.regenerate_all()
    return core.prove(prop_files)
