"""C03 — the detector error model is exactly the circuit's noise pushed onto detectors.
Tie G: reverse-tracker routines -> Gen_RevTrack.v. Tie O: the joint distribution over detectors/observables defined by the
implementation's DEM is compared with the one defined by the specification (Spec.srun with one fault variable per elementary
fault: the fault part of each detector form is exactly which faults flip it) through characteristic functions
chi(s) = E[(-1)^{s.x}]: product over channels of (p0 + sum_j p_j (-1)^{s.S_j}) versus product over DEM errors of (1-2p)^{[s.e odd]},
on all unit vectors, many pairs and random vectors. Rejections are compared with what the specification says about
determinism and about which channels need the disjoint approximation."""
import json
import math

from vlib import core, demtext, gatetable, gencirc, stimtext

F = gatetable.F
NEEDS_APPROX = 'needs-approx'


def approx_pmax(flat):
    """largest probability the threshold form of approximate_disjoint_errors is compared against, or None when a PAULI_CHANNEL_1
    with several components is present (whether it needs the approximation depends on a closed form)"""
    pmax = 0.0
    chain = []
    for ins in flat + [None]:
        nm = ins.name if ins is not None else None
        if nm == 'ELSE_CORRELATED_ERROR':
            chain.append(ins.args[0])
            continue
        if len(chain) > 1:
            rem = 1.0
            for p in chain:
                pmax = max(pmax, p * rem)
                rem *= 1 - p
        chain = [ins.args[0]] if nm == 'E' else []
        if nm is None:
            break
        a = ins.args
        if nm == 'HERALDED_ERASE':
            pmax = max(pmax, a[0])
        elif nm in ('HERALDED_PAULI_CHANNEL_1', 'PAULI_CHANNEL_2') and sum(1 for p in a if p > 0) > 1:
            pmax = max(pmax, max(a))
        elif nm == 'PAULI_CHANNEL_1' and sum(1 for p in a if p > 0) > 1:
            return None
    return pmax


def classify_channels(flat):
    """which noise instructions need approximate_disjoint_errors; which make the circuit unanalyzable"""
    need = False
    reject = False
    prev_chain = False
    for ins in flat:
        nm = ins.name
        a = ins.args
        if nm == 'HERALDED_ERASE':
            need = True
        elif nm == 'HERALDED_PAULI_CHANNEL_1':
            if sum(1 for p in a if p > 0) > 1:
                need = True
        elif nm == 'PAULI_CHANNEL_2':
            if sum(1 for p in a if p > 0) > 1:
                need = True
        elif nm == 'PAULI_CHANNEL_1':
            if sum(1 for p in a if p > 0) > 1:
                need = need or 'maybe'       # convertible to independent errors when the closed form exists
        elif nm == 'ELSE_CORRELATED_ERROR':
            need = True
        elif nm == 'DEPOLARIZE1' and a[0] > 0.75:
            reject = True
        elif nm == 'DEPOLARIZE2' and a[0] > 15 / 16:
            reject = True
    return need, reject


def symptom_names(ir_nvars, nsweep, sp):
    """for each fault variable: set of 'D%d'/'L%d' it flips"""
    cols = {}
    for d, (c, mask) in enumerate(sp['det']):
        m = mask
        v = 0
        while m:
            if m & 1:
                cols.setdefault(v, set()).add('D%d' % d)
            m >>= 1
            v += 1
    for i, (c, mask) in sp['obs'].items():
        m = mask
        v = 0
        while m:
            if m & 1:
                cols.setdefault(v, set()).add('L%d' % i)
            m >>= 1
            v += 1
    return cols


def outcome_symptoms(cols, vars_):
    s = set()
    for v in vars_:
        s ^= cols.get(v, set())
    return frozenset(s)


def chi_circuit(channels, gauge_rows, svec, approx):
    """channels: list of list of (p, frozenset symptoms). gauge_rows: coin parts per symptom name."""
    g = 0
    for name in svec:
        g ^= gauge_rows.get(name, 0)
    if g:
        return 0.0
    v = 1.0
    for oc in channels:
        if approx:
            # outcomes with identical symptoms are one effect (probabilities add, they are disjoint); distinct effects are
            # then treated as independent mechanisms -- the documented approximation
            groups = {}
            for p, s in oc:
                groups[s] = groups.get(s, 0.0) + p
            for s, p in groups.items():
                if len(s & svec) & 1:
                    v *= 1 - 2 * p
        else:
            tot = 1.0
            for p, s in oc:
                if len(s & svec) & 1:
                    tot -= 2 * p
            v *= tot
    return v


def run(rep, tier):
    quick = tier == 'quick'
    svh = core.Svh('o1')
    gates, hashes = gatetable.regenerate(svh)
    names = stimtext.Names(gates)
    from checks import c11
    rep.set_proof(c11.prove_shared(['Properties_C03.v']))
    rep.trusted += ['Coq 8.16.1 kernel', 'vlib translators (gate table, reverse tracker routines, dispatch)',
                    'extraction + runner/main.ml', 'vlib/stimtext.py (fault variables per channel)', 'vlib/demtext.py', 'harness/c03.cc',
                    'floating point comparison of characteristic functions (tolerance 1e-7)']
    rep.assumptions += ['equality of distributions is tested through characteristic functions on unit vectors, pairs and random '
                        'vectors (a randomized identity test: it can miss, it cannot raise a false alarm beyond rounding)',
                        'the analyzer bookkeeping (add_error_combinations, gauge removal) is tied by this oracle, not modelled in Coq']
    rng = rep.rng()
    N = 12000 if quick else 60000
    pre = []
    pre_in = []
    for _ in range(N):
        kind = rng.choice(['exact', 'exact', 'exact', 'approx', 'gauge'])
        prof = gencirc.Profile(noise=True, measure_noise=True, heralded=(kind == 'approx'), annotations=False, len_range=(6, 28),
                               n_choices=[1, 2, 3, 4])
        n, body = gencirc.gen_circuit(rng, gates, prof)
        body = restrict_noise(rng, body, kind)
        if kind == 'approx' and rng.random() < 0.5:
            body = add_else_chain(rng, body)
        nq = max(stimtext.num_qubits(body), 1)
        flat = stimtext.flatten(body)
        ir0 = stimtext.to_spec(flat, names, nsweep=0, noise=False)
        pre_in.append(stimtext.spec_cmd(nq, ir0))
        pre.append((body, kind, nq))
    pre_out = core.run_svm('\n'.join(pre_in) + '\n', timeout=3000)
    cases = []
    spec_in = []
    for (body, kind, nq), so in zip(pre, pre_out):
        sp0 = stimtext.parse_spec_out(so)
        body = add_deterministic_annotations(rng, body, sp0['rec'], 0, gauge=(kind == 'gauge'))
        flat = stimtext.flatten(body)
        ir = stimtext.to_spec(flat, names, nsweep=0, noise=True)
        spec_in.append(stimtext.spec_cmd(nq, ir))
        cases.append((body, flat, ir, kind))
    spec_out = core.run_svm('\n'.join(spec_in) + '\n', timeout=3000)
    for (body, flat, ir, kind), so in zip(cases, spec_out):
        text = stimtext.circuit_text(body)
        if so.startswith('EXN'):
            rep.broken_obligation('spec-run', {'case': text, 'error': so})
            continue
        sp = stimtext.parse_spec_out(so)
        base = ir.nvars
        gauge_rows = {}
        for d, (c, mask) in enumerate(sp['det']):
            if mask >> base:
                gauge_rows['D%d' % d] = mask >> base
        obs_gauge = False
        for i, (c, mask) in sp['obs'].items():
            if mask >> base:
                gauge_rows['L%d' % i] = mask >> base
                obs_gauge = True
        need, reject = classify_channels(flat)
        cols = symptom_names(ir.nvars, 0, sp)
        channels = [[(p, outcome_symptoms(cols, vs)) for p, vs in ch.outcomes if p > 0] for ch in ir.channels]
        fold = rng.random() < 0.5
        allow_gauge = bool(gauge_rows) and rng.random() < 0.7
        approx = 1.0 if (need is True or (need == 'maybe' and rng.random() < 0.5)) and rng.random() < 0.85 else 0.0
        # the threshold form: a probability above the threshold must be refused, otherwise the model is the approximate one
        thr_reject = False
        if need is True and approx == 1.0 and rng.random() < 0.4:
            pm = approx_pmax(flat)
            if pm is not None and 0 < pm < 1:
                mode = rng.choice(['below', 'equal', 'above'])
                approx = {'below': pm * 0.75, 'equal': pm, 'above': min(1.0, pm * 1.25)}[mode]
                thr_reject = mode == 'below'
        try:
            out = svh.request('analyze', [0, int(fold), int(allow_gauge), repr(approx), 0, 0, 1], text)
        except core.Crash as e:
            rep.violation('ErrorAnalyzer::circuit_to_detector_error_model', 'crash', text, str(e) + e.stderr[-1200:])
            continue
        opts = {'fold_loops': fold, 'allow_gauge_detectors': allow_gauge, 'approximate_disjoint_errors': approx}
        err = out[-1].startswith('ERR') if out else False
        has_ms = any(ch.kind == 'flip' for ch in ir.channels)
        nontrivial = len(set(s for oc in channels for p, s in oc if s)) >= 2 and any(len(s) >= 2 for oc in channels for p, s in oc)
        rep.count(('c03', text, fold, allow_gauge, approx), nontrivial=nontrivial)
        must_reject = reject or (bool(gauge_rows) and not allow_gauge) or obs_gauge or (need is True and approx == 0.0) or thr_reject
        if must_reject:
            if not err:
                rep.violation('ErrorAnalyzer::circuit_to_detector_error_model', 'accept-invalid', {'circuit': text, 'options': opts},
                              'the specification says this circuit must be rejected (non-deterministic detector/observable: %s, '
                              'needs disjoint approximation: %s, over-mixing: %s) but a model was returned' % (sorted(gauge_rows), need, reject))
            continue
        if err:
            if need == 'maybe' and approx == 0.0 and 'approximate_disjoint_errors' in out[-1]:
                continue       # PAULI_CHANNEL_1 without a closed-form independent decomposition: documented rejection
            if approx > 0 and 'threshold' in out[-1] and need is not True:
                continue
            rep.violation('ErrorAnalyzer::circuit_to_detector_error_model', 'reject-valid', {'circuit': text, 'options': opts},
                          'valid annotated circuit rejected: ' + out[-1])
            continue
        dem = demtext.parse('\n'.join(out[1:]))
        errors, dets = demtext.flatten(dem)
        # PAULI_CHANNEL_1 that was converted exactly must be compared exactly; with approx>0 the documented rule is
        # "outcomes become independent mechanisms"
        use_approx = approx > 0 and need is not False
        names_all = ['D%d' % d for d in range(len(sp['det']))] + ['L%d' % i for i in sorted(sp['obs'])]
        tests = [frozenset([x]) for x in names_all]
        for _ in range(24):
            if len(names_all) >= 2:
                tests.append(frozenset(rng.sample(names_all, 2)))
        for _ in range(40):
            tests.append(frozenset(x for x in names_all if rng.random() < 0.5))
        # channels whose outcomes are disjoint and more than one effect: under approximate_disjoint_errors the model may treat
        # the effects as independent; |prod(1-2a_i) - (1-2 sum a_i)| <= 2 (sum a_i)^2 bounds the first-order error per channel
        approx_tol = 0.0
        if approx > 0:
            for ch, oc in zip(ir.channels, channels):
                if ch.kind in ('HERALDED_ERASE', 'HERALDED_PAULI_CHANNEL_1', 'PAULI_CHANNEL_2', 'PAULI_CHANNEL_1', 'E-chain') and len(oc) > 1:
                    P = sum(p for p, s_ in oc)
                    approx_tol += 2 * P * P
        for svec in tests:
            a = demtext.chi_dem(errors, svec)
            b = chi_circuit(channels, gauge_rows, svec, False)
            ok = abs(a - b) <= 1e-7 + approx_tol
            if not ok:
                rep.violation('ErrorAnalyzer::circuit_to_detector_error_model', 'wrong-result', {'circuit': text, 'options': opts},
                              'the model\'s distribution differs from the circuit\'s%s: E[(-1)^(s.x)] for s = %s' % (
                                  ' beyond first order' if approx_tol else '', sorted(svec)), b, a)
                break
        # no spurious symptoms: every DEM symptom set must be reachable by the circuit's faults (linear span)
    rep.sample({'circuit': stimtext.circuit_text(cases[0][0])})
    svh.close()
    rep.cov['rule'] = ('random annotated noisy circuits (every channel, measurement-flip arguments, feedback, MPP, pair measurements, '
                       'REPEAT) x {fold_loops, allow_gauge_detectors, approximate_disjoint_errors}; detectors chosen deterministic '
                       'via the specification except in the gauge class. Non-trivial = >= 2 distinct symptom classes and one '
                       'multi-detector symptom.')


def add_else_chain(rng, body):
    from vlib.stimtext import Instr, T
    nq = max(stimtext.num_qubits(body), 1)
    pos = rng.randrange(len(body) + 1)
    chain = [Instr('E', [rng.choice([0.01, 0.02])], [T('pauli', rng.randrange(nq), pauli=rng.choice('XYZ'))])]
    for _ in range(rng.choice([1, 2])):
        chain.append(Instr('ELSE_CORRELATED_ERROR', [rng.choice([0.01, 0.02])],
                           [T('pauli', rng.randrange(nq), pauli=rng.choice('XYZ'))]))
    return body[:pos] + chain + body[pos:]


def restrict_noise(rng, body, kind):
    """exact class: only channels whose DEM is exact; approx class: everything"""
    out = []
    for ins in body:
        if ins.name == 'REPEAT':
            ins.body = restrict_noise(rng, ins.body, kind)
            out.append(ins)
            continue
        if kind != 'approx':
            if ins.name in ('PAULI_CHANNEL_2', 'HERALDED_ERASE', 'HERALDED_PAULI_CHANNEL_1', 'ELSE_CORRELATED_ERROR'):
                continue
            if ins.name == 'PAULI_CHANNEL_1':
                k = rng.randrange(3)
                ins.args = [a if j == k else 0.0 for j, a in enumerate(ins.args)]
        if ins.name == 'DEPOLARIZE1' and ins.args[0] > 0.75:
            ins.args = [0.3]
        if kind == 'approx' and ins.name in ('PAULI_CHANNEL_2', 'PAULI_CHANNEL_1', 'HERALDED_ERASE', 'HERALDED_PAULI_CHANNEL_1'):
            ins.args = [min(a, rng.choice([0.001, 0.01, 0.02])) for a in ins.args]     # keep the first-order bound tight
        out.append(ins)
    return out


def strip_annotations(l):
    r = []
    for ins in l:
        if ins.name == 'REPEAT':
            ins.body = strip_annotations(ins.body)
            if ins.body:
                r.append(ins)
        elif ins.name not in ('DETECTOR', 'OBSERVABLE_INCLUDE'):
            r.append(ins)
    return r


def nullspace_parities(forms, base):
    """sets of measurement indices whose XOR has no coin part (deterministic parities), as a basis"""
    piv = {}          # top bit -> (coinvec, index set)
    basis = []
    for k, (c, m) in enumerate(forms):
        v = m >> base
        idx = 1 << k
        while v:
            t = v.bit_length() - 1
            if t in piv:
                v ^= piv[t][0]
                idx ^= piv[t][1]
            else:
                piv[t] = (v, idx)
                break
        if v == 0:
            basis.append(idx)
    return basis


def add_deterministic_annotations(rng, body, forms, base, gauge=False):
    from vlib.stimtext import Instr, T
    nm = len(forms)
    basis = nullspace_parities(forms, base)
    tail = []

    def lookbacks(idxmask):
        return [T('rec', nm - k) for k in range(nm) if (idxmask >> k) & 1]

    cands = list(basis)
    rng.shuffle(cands)
    for b in cands[:8]:
        v = b
        if len(basis) >= 2 and rng.random() < 0.4:
            v ^= rng.choice(basis)
        if v == 0:
            continue
        ts = lookbacks(v)
        if rng.random() < 0.25:
            tail.append(Instr('OBSERVABLE_INCLUDE', [float(rng.choice([0, 1, 3]))], ts))
        else:
            tail.append(Instr('DETECTOR', [float(rng.randrange(3))] if rng.random() < 0.3 else [], ts))
    if gauge and nm:
        for _ in range(rng.choice([1, 2])):
            v = rng.getrandbits(nm) or 1
            tail.append(Instr('DETECTOR', [], lookbacks(v)))
        if rng.random() < 0.35:
            # a (probably) non-deterministic observable, often on the very results a gauge detector uses: it must be rejected
            # whether or not gauge detectors are allowed
            w = v if rng.random() < 0.6 else (rng.getrandbits(nm) or 1)
            tail.insert(rng.randrange(len(tail) + 1), Instr('OBSERVABLE_INCLUDE', [float(rng.choice([0, 1, 2]))], lookbacks(w)))
    return body + tail


def replay(path):
    r = json.load(open(path))
    print(json.dumps(r, indent=1))
    return 0
