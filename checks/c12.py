"""C12 — Pauli string arithmetic and propagation through circuits are exact.
Tie G: pauli_string_ref.inl -> Gen_PauliRef.v, theorems in Properties_C12.v re-checked on every run.
Tie H/O: the real PauliStringRef<W> against the extracted table action (Act.run1/run2) and product phase."""
from vlib import core, gatetable, gen, gen_pauliref

F = gatetable.F
ORDER = {'_': 0, 'I': 0, 'X': 1, 'Y': 2, 'Z': 3}


def py_lt(a, b):
    sa, ba = a[0] == '-', a[1:]
    sb, bb = b[0] == '-', b[1:]
    for x, y in zip(ba, bb):
        if ORDER[x] != ORDER[y]:
            return ORDER[x] < ORDER[y]
    if len(ba) != len(bb):
        return len(ba) < len(bb)
    if sa != sb:
        return sa < sb
    return False


def run(rep, tier):
    svh = core.Svh('o1')
    gates, hashes = gatetable.regenerate(svh)
    info = gen_pauliref.generate()
    rep.notes['translator'] = {'routines_translated': info['routines'], 'refused': info['refused'],
                               'dispatch_entries': {k: [len(v[0]), len(v[1]), len(v[2])] for k, v in info['tables'].items()}}
    from vlib import setup
    setup.regenerate_all(svh)
    pr = core.prove(['Properties_C12.v'])
    rep.set_proof(pr)
    rep.trusted += ['Coq 8.16.1 kernel incl. vm_compute', 'vlib/cxx.py + vlib/gen_pauliref.py (C++ subset translator)',
                    'vlib/gatetable.py + harness gatetable dump', 'extraction (ExtrOcamlBasic only) + runner/main.ml glue',
                    'harness/c12.cc']
    rep.assumptions += ['collapse/noise refusal rules and comparison order are checked by differential test against a '
                        'Python transcription of the documented rule (not by a theorem)']
    rng = rep.rng()
    quick = tier == 'quick'
    ug = gen.unitary_gates(gates)

    # ---------- A. exhaustive local sweep on the implementation, every gate name and alias, word boundaries
    cases = []
    for name, canon, ar in ug:
        for n in ([1, 65, 130] if ar == 1 else [2, 65, 130]):
            poss = sorted(set([0, min(63, n - 1), min(64, n - 1), n - 1]))
            for W in ([rng.choice([64, 128, 256])] if quick and n != 130 else [64, 128, 256]):
                bg = list(gen.rand_pauli(rng, n, 0.5))
                if ar == 1:
                    for q in poss:
                        for p in 'XYZ':
                            s = bg[:]
                            s[1 + q] = p
                            cases.append((W, ''.join(s), '%s %d' % (name, q)))
                else:
                    pairs = [(a, b) for a in poss for b in poss if a != b][:6]
                    for a, b in pairs:
                        for p in '_XYZ':
                            for q in '_XYZ':
                                s = bg[:]
                                s[1 + a] = p
                                s[1 + b] = q
                                cases.append((W, ''.join(s), '%s %d %d' % (name, a, b)))
    # ---------- B. random circuits over all gates/aliases, repeated and overlapping targets
    nb = 1500 if quick else 40000
    for _ in range(nb):
        n = rng.choice(gen.SIZES)
        W = rng.choice([64, 128, 256])
        p = gen.rand_pauli(rng, n)
        instrs = []
        for _ in range(rng.choice([1, 1, 2, 3, 6])):
            name, canon, ar = rng.choice(ug)
            ts = gen.rand_targets(rng, n, ar)
            if ts is None:
                continue
            instrs.append('%s %s' % (gen.mixed_case(rng, name), ' '.join(map(str, ts))))
        if instrs:
            cases.append((W, p, ';'.join(instrs)))
    # run after/before on the implementation, grouped by W
    model_in = []
    impl = {}
    for W in (64, 128, 256):
        sel = [c for c in cases if c[0] == W]
        if not sel:
            continue
        payload = '\n'.join('%s | %s' % (p, c) for _, p, c in sel)
        fa = svh.request('pauli_after', [W], payload)
        fb = svh.request('pauli_before', [W], payload)
        for k, c in enumerate(sel):
            impl[c] = (fa[k], fb[k])
    for W, p, c in cases:
        canon = ' ; '.join(i.upper() for i in c.split(';'))
        model_in.append('conjc %s | %s' % (p, canon))
        model_in.append('iconjc %s | %s' % (p, canon))
    mo = core.run_svm('\n'.join(model_in) + '\n')
    for k, case in enumerate(cases):
        W, p, c = case
        exp_a, exp_b = mo[2 * k], mo[2 * k + 1]
        got_a, got_b = impl[case]
        rep.count(('prop', p, c), nontrivial=any(ch in 'XYZ' for ch in p))
        if got_a != exp_a:
            rep.violation('PauliString<%d>::after(circuit)' % W, 'wrong-result', '%s | %s' % (p, c),
                          'after() differs from conjugation by the documented gate action', exp_a, got_a)
        if got_b != exp_b:
            rep.violation('PauliString<%d>::before(circuit)' % W, 'wrong-result', '%s | %s' % (p, c),
                          'before() differs from conjugation by the inverse of the documented gate action', exp_b, got_b)
    rep.sample({'pauli': cases[-1][1], 'circuit': cases[-1][2], 'after': impl[cases[-1]][0]})
    rep.sample({'pauli': cases[0][1], 'circuit': cases[0][2], 'after': impl[cases[0]][0]})

    # ---------- C. products, commutation, weight, order, text round trip
    nm = 1500 if quick else 30000
    pairs = []
    for _ in range(nm):
        n = rng.choice(gen.SIZES)
        a = gen.rand_pauli(rng, n)
        m = n if rng.random() < 0.8 else rng.randrange(1, n + 1)
        b = gen.rand_pauli(rng, m)
        if rng.random() < 0.1:
            b = a[0] + a[1:1 + m]
        if rng.random() < 0.1 and m == n:
            k = rng.randrange(n)
            b = b[0] + a[1:1 + k] + b[1 + k:]
        pairs.append((rng.choice([64, 128, 256]), a, b))
    for W in (64, 128, 256):
        sel = [c for c in pairs if c[0] == W]
        if not sel:
            continue
        out = svh.request('pauli_mul', [W], '\n'.join('%s %s' % (a, b) for _, a, b in sel))
        mo = core.run_svm(''.join('mul %s %s\ncommutes %s %s\n' % (a, b + '_' * (len(a) - len(b)), a, b + '_' * (len(a) - len(b)))
                                  for _, a, b in sel))
        for k, (_, a, b) in enumerate(sel):
            t = out[k].split(' ')
            exp_k, exp_bits = mo[2 * k].split(' ')
            exp_com = mo[2 * k + 1]
            rep.count(('mul', a, b))
            got_prod = t[1]
            # the in-place product keeps A's own sign bit; log_i carries B's sign: expected string = A.sign + bits
            exp_prod = a[0] + exp_bits[1:]
            # expected log_i from the model includes both signs; the C++ routine adds only rhs.sign
            exp_logi = (int(exp_k) + (2 if a[0] == '-' else 0)) % 4
            if int(t[0]) != exp_logi or got_prod != exp_prod:
                rep.violation('PauliStringRef<%d>::inplace_right_mul_returning_log_i_scalar' % W, 'wrong-result',
                              '%s %s' % (a, b), 'product or power of i differs from the Pauli algebra',
                              '%d %s' % (exp_logi, exp_prod), '%s %s' % (t[0], got_prod))
            if t[2] != exp_com:
                rep.violation('PauliStringRef<%d>::commutes' % W, 'wrong-result', '%s %s' % (a, b), 'commutation test wrong',
                              exp_com, t[2])
            wt = sum(1 for ch in a[1:] if ch in 'XYZ')
            if int(t[3]) != wt:
                rep.violation('PauliStringRef<%d>::weight' % W, 'wrong-result', a, 'weight wrong', wt, t[3])
            if int(t[4]) != int(py_lt(a, b)) or int(t[5]) != int(a == b):
                rep.violation('PauliStringRef<%d>::operator<' % W, 'wrong-result', '%s %s' % (a, b), 'comparison wrong',
                              [int(py_lt(a, b)), int(a == b)], [t[4], t[5]])
            if t[6] != a:
                rep.violation('PauliString<%d>::from_str/str' % W, 'wrong-result', a, 'text round trip', a, t[6])

    # ---------- E. FlexPauliString (phases +, i, -, -i): products incl. the carry i*i = -1, different lengths, tensor sum
    flex_products(rep, svh, rng, 600 if quick else 20000)
    # ---------- D. refusals: measurement / reset / noise / out-of-range targets
    refusal_cases(rep, svh, rng, gates, 400 if quick else 8000)
    svh.close()
    rep.cov['rule'] = ('A: every unitary gate name/alias x all local Paulis at word-boundary positions x W; B: random circuits '
                       '(sizes %s, repeated/overlapping targets, mixed case names); C: products/commutation/weight/order/text; '
                       'D: refusal rules. Non-trivial = string has a non-identity Pauli; distinct = distinct (string, circuit).' % gen.SIZES)


PHASES = ['+', '+i', '-', '-i']


def flex_products(rep, svh, rng, count):
    cases = []
    for k in range(count):
        n = rng.choice([1, 1, 2, 3, 5, 63, 64, 65, 130])
        m = n if rng.random() < 0.6 else rng.choice([1, 2, max(1, n - 1), n + 1, 70])
        dens = rng.choice([0.3, 0.8, 1.0])
        a = ''.join(rng.choice('XYZ') if rng.random() < dens else '_' for _ in range(n))
        b = ''.join(rng.choice('XYZ') if rng.random() < dens else '_' for _ in range(m))
        pa, pb = rng.randrange(4), rng.randrange(4)
        if k % 3 == 0:
            pb = rng.choice([1, 3])          # imaginary right operand (the i * i carry)
        cases.append((pa, a, pb, b))
    out = svh.request('flex_pauli', [], '\n'.join('mul %s%s %s%s\nadd %s%s %s%s' % (PHASES[pa], a, PHASES[pb], b, PHASES[pa], a, PHASES[pb], b)
                                                   for pa, a, pb, b in cases))
    L = [max(len(a), len(b)) for pa, a, pb, b in cases]
    mo = core.run_svm(''.join('mul +%s +%s\n' % (a + '_' * (l - len(a)), b + '_' * (l - len(b))) for (pa, a, pb, b), l in zip(cases, L)))
    for k, ((pa, a, pb, b), l) in enumerate(zip(cases, L)):
        ek, ebits = mo[k].split(' ')
        exp_mul = PHASES[(pa + pb + int(ek)) % 4] + ebits[1:]
        exp_add = PHASES[(pa + pb) % 4] + a + b
        rep.count(('flex', pa, a, pb, b), nontrivial=pb in (1, 3))
        inp = '%s%s , %s%s' % (PHASES[pa], a, PHASES[pb], b)
        if out[2 * k] != exp_mul:
            rep.violation('FlexPauliString::operator*', 'wrong-result', inp, 'product (with its power of i) differs from the Pauli algebra', exp_mul, out[2 * k])
        if out[2 * k + 1] != exp_add:
            rep.violation('FlexPauliString::operator+', 'wrong-result', inp, 'tensor sum differs', exp_add, out[2 * k + 1])


def refusal_cases(rep, svh, rng, gates, count):
    """after()/before() through collapsing and noisy instructions: refused iff the documented rule says so."""
    lines = []
    expect = []
    for _ in range(count):
        n = rng.choice([1, 2, 3, 5, 64, 65, 130])
        p = gen.rand_pauli(rng, n, rng.choice([0.2, 0.5]))
        bits = p[1:]
        kind = rng.choice(['M', 'MX', 'MY', 'R', 'RX', 'RY', 'MR', 'MRX', 'MRY', 'MPP', 'X_ERROR', 'DEPOLARIZE1', 'OOR',
                           'TICK'])
        if kind in ('M', 'MX', 'MY'):
            ts = [rng.randrange(n) for _ in range(rng.choice([1, 2, 3]))]
            basis = {'M': 'Z', 'MX': 'X', 'MY': 'Y'}[kind]
            inv = [rng.random() < 0.3 for _ in ts]
            active = [q for q in range(n) if bits[q] != '_']
            if active and rng.random() < 0.4:
                # the only target the string can anticommute with is written with an inverted result
                q0 = rng.choice(active)
                others = [q for q in range(n) if bits[q] in ('_', basis) and q != q0]
                ts = [q0] + ([rng.choice(others)] if others and rng.random() < 0.5 else [])
                inv = [True] + [rng.random() < 0.3 for _ in ts[1:]]
                if rng.random() < 0.5:
                    ts.reverse()
                    inv.reverse()
            bad = any(bits[q] not in ('_', basis) for q in ts)
            ea = eb = ('ERR' if bad else p)
            txt = '%s%s %s' % (kind, '(0.01)' if rng.random() < 0.15 else '', ' '.join(('!' if i else '') + str(q) for q, i in zip(ts, inv)))
        elif kind in ('R', 'RX', 'RY', 'MR', 'MRX', 'MRY'):
            ts = [rng.randrange(n) for _ in range(rng.choice([1, 2]))]
            basis = {'R': 'Z', 'RX': 'X', 'RY': 'Y', 'MR': 'Z', 'MRX': 'X', 'MRY': 'Y'}[kind]
            ea = 'ERR' if any(bits[q] != '_' for q in ts) else p
            # before a reset: refused if it anticommutes with the reset basis, otherwise the reset qubits are cleared
            if any(bits[q] not in ('_', basis) for q in ts):
                eb = 'ERR'
            else:
                l = list(p)
                for q in ts:
                    l[1 + q] = '_'
                eb = ''.join(l)
            txt = '%s %s' % (kind, ' '.join(('!' if kind.startswith('M') and rng.random() < 0.3 else '') + str(q) for q in ts))
        elif kind == 'MPP':
            prods = []
            bad = False
            for _ in range(rng.choice([1, 2])):
                qs = rng.sample(range(n), min(n, rng.choice([1, 2, 3])))
                terms = [(rng.choice('XYZ'), q) for q in qs]
                anti = 0
                for b, q in terms:
                    if bits[q] != '_' and bits[q] != b:
                        anti ^= 1
                bad = bad or anti == 1
                prods.append('*'.join('%s%d' % t for t in terms))
            ea = eb = 'ERR' if bad else p
            txt = 'MPP ' + ' '.join(prods)
        elif kind in ('X_ERROR', 'DEPOLARIZE1'):
            ea = eb = 'ERR'
            txt = '%s(0.125) %d' % (kind, rng.randrange(n))
        elif kind == 'OOR':
            ea = eb = 'ERR'
            txt = 'H %d' % (n + rng.choice([0, 1, 64]))
        elif kind == 'TICK':
            ea = eb = p
            txt = 'TICK'
        else:
            ea = eb = p
            txt = 'MPAD 1 0'
        lines.append('%s | %s' % (p, txt))
        expect.append((ea, eb))
    W = rng.choice([64, 128, 256])
    fa = svh.request('pauli_after', [W], '\n'.join(lines))
    fb = svh.request('pauli_before', [W], '\n'.join(lines))
    for k, l in enumerate(lines):
        ea, eb = expect[k]
        rep.count(('refusal', l))
        ga = 'ERR' if fa[k].startswith('ERR') else fa[k]
        gb = 'ERR' if fb[k].startswith('ERR') else fb[k]
        if ga != ea:
            rep.violation('PauliString<%d>::after(circuit)' % W, 'wrong-refusal', l,
                          'propagation through a collapsing/noisy instruction: refusal rule or result differs', ea, fa[k])
        if gb != eb:
            rep.violation('PauliString<%d>::before(circuit)' % W, 'wrong-refusal', l,
                          'back-propagation through a collapsing/noisy instruction: refusal rule or result differs', eb, fb[k])


def replay(path):
    import json
    r = json.load(open(path))
    print(json.dumps(r, indent=1))
    return 0
