"""C16 — sampling a detector error model is the XOR of independently fired errors.
Proofs: DemSample.dem_shot_is_xor_of_fired, DemFlat.flatten_is_naive_execution, Uniform.fibers_equal.
Tie H/O: every shot of the real sampler (DemSampler<W> buffers and `stim sample_dem` files) must equal the XOR of the
targets of exactly the errors recorded as fired, where the absolute errors come from the extracted DemFlat model; replaying the
recorded errors through every input format must reproduce the bits; firing frequencies and pair independence at 7 sigma."""
import json
import math
import os
import tempfile

from vlib import core, docformats
from checks import c08


def model_for_sampling(rng):
    m = c08.gen_model(rng)
    c08.small_reps(m, rng)

    def fix(l):
        for ins in l:
            ins['tag'] = ''
            if ins['kind'] == 'repeat':
                fix(ins['body'])
            elif ins['kind'] == 'error':
                ins['args'] = [rng.choice([0.0, 1.0, 0.5, 0.125, 0.3, 0.01, 0.9])]
                ins['targets'] = [t if t == '^' else (t[0] + str(int(t[1:]) % (12 if t[0] == 'D' else 3))) for t in ins['targets']]
                if rng.random() < 0.2:
                    ins['targets'].append(ins['targets'][0])       # duplicate target cancels
            elif ins['kind'] in ('detector', 'shift_detectors'):
                ins['args'] = []
    fix(m)
    return m


def flat_errors(models):
    """absolute errors of each model through the extracted DemFlat model"""
    cmds = []
    probs_all = []
    for m in models:
        probs = []
        cmds.append('demflat ' + ' '.join(c08.tokens_for_model(m, probs)))
        probs_all.append(probs)
    out = core.run_svm('\n'.join(cmds) + '\n', timeout=3000)
    res = []
    for line, probs in zip(out, probs_all):
        stream = line.split('#')[0].strip()
        errs = []
        for it in stream.split(';'):
            t = it.split(' ')
            if t and t[0] == 'E':
                errs.append((probs[int(t[1])], [x for x in t[2:] if x != '^']))
        res.append(errs)
    return res


def expected_shot(errs, fired, ndet, nobs):
    d = [0] * ndet
    o = [0] * nobs
    for (p, ts), f in zip(errs, fired):
        if f == '1':
            for t in ts:
                if t[0] == 'D':
                    d[int(t[1:])] ^= 1
                else:
                    o[int(t[1:])] ^= 1
    return ''.join(map(str, d)), ''.join(map(str, o))


def counts(errs):
    ndet = max([int(t[1:]) + 1 for p, ts in errs for t in ts if t[0] == 'D'] + [0])
    nobs = max([int(t[1:]) + 1 for p, ts in errs for t in ts if t[0] == 'L'] + [0])
    return ndet, nobs


def run(rep, tier):
    quick = tier == 'quick'
    svh = core.Svh('o1', timeout=60)
    from checks import c11
    rep.set_proof(c11.prove_shared(['Properties_C16.v']))
    rep.trusted += ['Coq 8.16.1 kernel', 'extraction + runner/main.ml', 'harness/c15.cc (demsampler)', 'decoders from doc/result_formats.md']
    rep.assumptions += ['RNG quality is tested statistically (7 sigma), not proved']
    rng = rep.rng()
    N = 150 if quick else 4000
    models = [model_for_sampling(rng) for _ in range(N)]
    errs_all = flat_errors(models)
    for m, errs in zip(models, errs_all):
        text = '\n'.join(c08.render(rng, m, vary=False))
        if not errs:
            continue
        ndet_e, nobs_e = counts(errs)
        # ---- A. DemSampler<W> buffers
        W = rng.choice([64, 128, 256])
        shots = rng.choice([1, 63, 64, 65, 257, 300])
        try:
            out = svh.request('demsampler', [W, rng.randrange(1 << 30), shots], text)
        except core.Crash as e:
            rep.violation('DemSampler<%d>::resample' % W, 'crash', text, str(e) + e.stderr[-1200:])
            continue
        if out and out[-1].startswith('ERR'):
            rep.broken_obligation('generator-produced-invalid-dem', {'dem': text, 'error': out[-1]})
            continue
        any_multi = False
        for s in range(shots):
            D, O, E = out[3 * s][2:], out[3 * s + 1][2:], out[3 * s + 2][2:]
            if len(E) != len(errs):
                rep.violation('DemSampler<%d>::resample' % W, 'wrong-result', text, 'number of error bits differs from the number of '
                              'error instructions of the model executed one instruction at a time', len(errs), len(E))
                break
            ed, eo = expected_shot(errs, E, len(D), len(O))
            any_multi = any_multi or any(f == '1' and len(ts) >= 2 for (p, ts), f in zip(errs, E))
            if (D, O) != (ed, eo):
                rep.violation('DemSampler<%d>::resample' % W, 'wrong-result', text,
                              'shot %d: detection events / observables are not the XOR of the targets of the errors recorded as fired (%s)' % (s, E),
                              (ed, eo), (D, O))
                break
            for (p, ts), f in zip(errs, E):
                if (p == 0.0 and f == '1') or (p == 1.0 and f == '0'):
                    rep.violation('DemSampler<%d>::resample' % W, 'wrong-result', text, 'an error with probability %r fired=%s' % (p, f))
        rep.count(('c16-a', text, shots, W), nontrivial=any_multi)
    rep.sample({'dem': text})
    cli_and_replay(rep, rng, models[:(25 if quick else 600)], errs_all, quick)
    statistics(rep, svh, rng, 6 if quick else 60)
    svh.close()
    rep.cov['rule'] = ('random models (nested repeats, shifts, separators, duplicate and cancelling targets, p in {0, .01, .125, .3, .5, .9, 1}) x '
                       'shots {1,63,64,65,257,300} x W: per-shot XOR identity on the sampler buffers; sample_dem files in every det/obs/err '
                       'format and replay through every err input format; 7-sigma frequency and pair-independence tests. Non-trivial = a '
                       'fired error with >= 2 targets.')


def cli_and_replay(rep, rng, models, errs_all, quick):
    fmts = ['01', 'b8', 'r8', 'hits', 'dets']
    for m, errs in zip(models, errs_all):
        if not errs:
            continue
        text = '\n'.join(c08.render(rng, m, vary=False))
        shots = rng.choice([1, 5, 64, 65, 130, 1025, 2500, 3100] if not quick else [5, 65, 1025, 2500, 2500])
        files = {}
        for k in ('det', 'obs', 'err'):
            f = tempfile.NamedTemporaryFile(delete=False, dir=core.BUILD)
            f.close()
            files[k] = f.name
        fd, fo, fe = rng.choice(fmts), rng.choice(fmts), rng.choice(fmts)
        rc, so, se = core.run_stim(['sample_dem', '--shots', str(shots), '--seed', str(rng.randrange(1 << 30)), '--out', files['det'], '--out_format', fd,
                                    '--obs_out', files['obs'], '--obs_out_format', fo, '--err_out', files['err'], '--err_out_format', fe], text.encode())
        cell = {'command': 'stim sample_dem --out_format %s --obs_out_format %s --err_out_format %s' % (fd, fo, fe), 'shots_gt_1024': shots > 1024}
        try:
            if rc != 0:
                rep.violation('stim sample_dem', 'reject-valid', cell, 'model:\n%s\n%s' % (text, se.decode()[-300:]))
                continue
            ndet, nobs = counts(errs)
            # the model may declare more detectors than errors touch; recover widths from the command's own data when dense
            ne = len(errs)
            E = decode(fe, open(files['err'], 'rb').read(), ne, shots)
            nd_decl = declared_detectors(m)
            ndet = max(ndet, nd_decl)
            nobs = max(nobs, declared_observables(m))
            D = decode(fd, open(files['det'], 'rb').read(), ndet, shots)
            O = decode(fo, open(files['obs'], 'rb').read(), nobs, shots)
            rep.count(('c16-cli', text, shots, fd, fo, fe), nontrivial=shots > 64)
            bad = None
            if E is None or D is None or O is None or not (len(E) == len(D) == len(O) == shots):
                bad = 'files do not decode to %d shots' % shots
            else:
                for s in range(shots):
                    ed, eo = expected_shot(errs, E[s], ndet, nobs)
                    if (D[s], O[s]) != (ed, eo):
                        bad = 'shot %d is not the XOR of its recorded errors %s' % (s, E[s])
                        break
            if bad:
                rep.violation('stim sample_dem', 'wrong-result', cell, bad + '; model:\n' + text)
                continue
            # replay through other input formats (all of them when several 1024-shot stripes are involved)
            for fr in (fmts if shots > 1024 else [rng.choice(fmts)]):
                rows = [[c == '1' for c in e] for e in E]
                rdata = docformats.save(fr, rows) if ne else b''
                rf = tempfile.NamedTemporaryFile(delete=False, dir=core.BUILD)
                rf.write(rdata)
                rf.close()
                files['replay'] = rf.name
                rc, so, se = core.run_stim(['sample_dem', '--shots', str(shots), '--out', files['det'], '--out_format', '01', '--obs_out', files['obs'],
                                            '--obs_out_format', '01', '--replay_err_in', rf.name, '--replay_err_in_format', fr], text.encode())
                cell2 = {'command': 'stim sample_dem --replay_err_in_format %s' % fr, 'shots_gt_1024': shots > 1024}
                if rc != 0:
                    rep.violation('stim sample_dem', 'reject-valid', cell2, 'replay failed; model:\n%s\n%s' % (text, se.decode()[-300:]))
                    continue
                D2 = decode('01', open(files['det'], 'rb').read(), ndet, shots)
                O2 = decode('01', open(files['obs'], 'rb').read(), nobs, shots)
                if D2 != D or O2 != O:
                    first = next((s for s in range(shots) if D2 is None or O2 is None or s >= len(D2) or D2[s] != D[s] or O2[s] != O[s]), None)
                    rep.violation('stim sample_dem', 'wrong-result', cell2,
                                  'replaying the recorded errors does not reproduce the recorded detection events/observables (first differing shot %s); '
                                  'model:\n%s' % (first, text))
        finally:
            for f in files.values():
                try:
                    os.unlink(f)
                except OSError:
                    pass


def declared_detectors(m, off=0):
    """number of detectors declared by executing the model (errors, detector declarations and shifts)"""
    mx = [0]
    state = [0]

    def go(l):
        for ins in l:
            if ins['kind'] == 'repeat':
                for _ in range(ins['reps']):
                    go(ins['body'])
            elif ins['kind'] == 'shift_detectors':
                state[0] += int(ins['targets'][0])
            elif ins['kind'] in ('error', 'detector'):
                for t in ins['targets']:
                    if t[0] == 'D':
                        mx[0] = max(mx[0], state[0] + int(t[1:]) + 1)
    go(m)
    return mx[0]


def declared_observables(m):
    mx = [0]

    def go(l):
        for ins in l:
            if ins['kind'] == 'repeat':
                go(ins['body'])
            elif ins['kind'] in ('error', 'logical_observable'):
                for t in ins['targets']:
                    if t[0] == 'L':
                        mx[0] = max(mx[0], int(t[1:]) + 1)
    go(m)
    return mx[0]


def decode(fmt, data, n, shots):
    if n == 0:
        return [''] * shots
    try:
        if fmt == 'dets':
            rows = docformats.load()['parse_dets'](data.decode().replace(' M', ' D').replace(' L', ' D'), n, 0) if False else parse_dets_any(data.decode(), n)
        else:
            rows = docformats.parse(fmt, data, n)
    except Exception:
        return None
    return [''.join('1' if b else '0' for b in r) for r in rows]


def parse_dets_any(text, n):
    rows = []
    for line in text.split('\n'):
        if not line.strip():
            continue
        t = line.split()
        r = [False] * n
        for x in t[1:]:
            k = int(x[1:])
            r[k] = True
        rows.append(r)
    return rows


def statistics(rep, svh, rng, count):
    for _ in range(count):
        k = rng.choice([2, 3, 5])
        ps = [rng.choice([0.01, 0.125, 0.3, 0.5, 0.75, 0.9375, 0.0199, 0.02]) for _ in range(k)]
        text = '\n'.join('error(%r) D%d' % (p, i) for i, p in enumerate(ps))
        N = 40000
        W = rng.choice([64, 128, 256])
        out = svh.request('demsampler', [W, rng.randrange(1 << 30), N], text)
        E = [out[3 * s + 2][2:] for s in range(N)]
        rep.count(('c16-stat', text), nontrivial=True)
        for i, p in enumerate(ps):
            c = sum(1 for e in E if e[i] == '1')
            sd = math.sqrt(N * p * (1 - p))
            if abs(c - N * p) > 7 * sd + 1:
                rep.violation('DemSampler<%d>::resample' % W, 'biased', text, 'error %d with probability %r fired %d times in %d shots' % (i, p, c, N),
                              N * p, c)
        for i in range(k):
            for j in range(i + 1, k):
                c = sum(1 for e in E if e[i] == '1' and e[j] == '1')
                pq = ps[i] * ps[j]
                sd = math.sqrt(N * pq * (1 - pq))
                if abs(c - N * pq) > 7 * sd + 1:
                    rep.violation('DemSampler<%d>::resample' % W, 'biased', text,
                                  'errors %d and %d are not independent: fired together %d times in %d shots' % (i, j, c, N), N * pq, c)


def replay(path):
    r = json.load(open(path))
    print(json.dumps(r, indent=1))
    return 0
