"""C20 — bit-matrix kernels match their definitions; results are SIMD-width independent.
Proof: Tr.transpose64_correct for inplace_transpose_64x64 exactly as written, with the six (mask, shift) passes REGENERATED from
simd_util.cc on every run (generated_transpose64_correct); Transp.transpose_involutive.
Tie H: the extracted model vs the implementation on random 64x64 blocks; every table / bit-vector primitive of the three word
widths vs its bit-by-bit definition on shapes covering every residue class; identical deterministic computations under W=64/128/256."""
import json

from vlib import core, gatetable, gencirc, stimtext


def run(rep, tier):
    quick = tier == 'quick'
    svh = core.Svh('o1', timeout=120)
    from vlib import gen_misc
    info = gen_misc.generate()
    rep.notes['translator'] = {'transpose_passes': [[hex(a), b] for a, b in info['passes']], 'refused': info['refused']}
    from checks import c11
    rep.set_proof(c11.prove_shared(['Properties_C20.v']))
    rep.trusted += ['Coq 8.16.1 kernel', 'vlib/gen_misc.py (pass table reader)', 'extraction + runner/main.ml', 'harness/c20.cc (bit-by-bit '
                    'reference loops inside the harness)']
    rep.assumptions += ['128/256-bit inplace_transpose_square and the AVX/SSE intrinsics are tied by the differential sweep, not modelled']
    rng = rep.rng()
    # ---- A. 64x64 transpose: model vs implementation
    model_in = []
    impl = []
    for k in range(40 if quick else 600):
        kind = rng.choice(['random', 'single', 'row', 'col', 'ones'])
        if kind == 'random':
            words = [rng.getrandbits(64) for _ in range(64)]
        elif kind == 'single':
            words = [0] * 64
            words[rng.randrange(64)] = 1 << rng.randrange(64)
        elif kind == 'row':
            words = [0] * 64
            words[rng.randrange(64)] = (1 << 64) - 1
        elif kind == 'col':
            b = rng.randrange(64)
            words = [1 << b] * 64
        else:
            words = [(1 << 64) - 1] * 64
        hexes = ['%016x' % w for w in words]
        out = svh.request('transpose64', [], '\n'.join(hexes))
        impl.append((words, out))
        model_in.append('transpose64 ' + ' '.join(hexes))
    mo = core.run_svm('\n'.join(model_in) + '\n', timeout=3000)
    for (words, out), m in zip(impl, mo):
        rep.count(('c20-t64', tuple(words)), nontrivial=True)
        if out != m.split(' '):
            rep.violation('inplace_transpose_64x64', 'wrong-result', ['%016x' % w for w in words],
                          'implementation differs from the proved model of the 64x64 transpose', m.split(' ')[:4], out[:4])
        # definition
        for kk in range(0, 64, 7):
            for j in range(0, 64, 5):
                if ((int(out[kk], 16) >> j) & 1) != ((words[j] >> kk) & 1):
                    rep.violation('inplace_transpose_64x64', 'wrong-result', ['%016x' % w for w in words], 'bit (%d,%d) is not the transposed bit' % (kk, j))
                    break
    # ---- B. tables and bit vectors, every width
    sizes = [0, 1, 2, 7, 63, 64, 65, 100, 127, 128, 129, 200, 255, 256, 257, 300, 511, 513, 600]
    if quick:
        shapes = [(rng.choice(sizes), rng.choice(sizes)) for _ in range(60)] + [(s, s) for s in [1, 64, 65, 66, 100, 129, 130, 193, 200, 256, 257]]
    else:
        shapes = [(a, b) for a in sizes for b in sizes] + [(s, s) for s in range(0, 600, 37)]
    for (r, c) in shapes:
        for W in (64, 128, 256):
            for pattern in ([0, 1, 3] if not quick else [rng.choice([0, 1, 2, 3, 4])]):
                try:
                    out = svh.request('c20_table', [W, r, c, pattern, rng.randrange(1 << 30)])
                except core.Crash as e:
                    rep.violation('simd_bit_table<%d>' % W, 'crash', {'rows': r, 'cols': c, 'pattern': pattern}, str(e) + e.stderr[-800:])
                    continue
                rep.count(('c20-table', W, r, c, pattern), nontrivial=(r % W != 0 or c % W != 0))
                bad = [l for l in out if l.startswith('MISMATCH') or l.startswith('ERR')]
                if bad:
                    rep.violation('simd_bit_table<%d>' % W, 'wrong-result', {'rows': r, 'cols': c, 'pattern': pattern},
                                  'a table primitive differs from its bit-by-bit definition: ' + '; '.join(bad[:3]))
    for n in (sizes if not quick else sizes[::2] + [300]):
        for W in (64, 128, 256):
            for pattern in (0, 1, 4):
                try:
                    out = svh.request('c20_bits', [W, n, pattern, rng.randrange(1 << 30)])
                except core.Crash as e:
                    rep.violation('simd_bits<%d>' % W, 'crash', {'bits': n, 'pattern': pattern}, str(e) + e.stderr[-800:])
                    continue
                rep.count(('c20-bits', W, n, pattern), nontrivial=n % W != 0)
                bad = [l for l in out if l.startswith('MISMATCH') or l.startswith('ERR')]
                if bad:
                    rep.violation('simd_bits<%d>' % W, 'wrong-result', {'bits': n, 'pattern': pattern},
                                  'a bit-vector primitive differs from its bit-by-bit definition: ' + '; '.join(bad[:3]))
    # ---- C. width independence of deterministic computations
    gates, hashes = gatetable.load(svh)
    for k in range(40 if quick else 1500):
        kind = rng.choice(['tableau', 'tsim', 'convert'])
        n = rng.choice([1, 2, 5, 63, 64, 65, 130])
        payload = ''
        if kind == 'tsim':
            prof = gencirc.Profile(len_range=(5, 25), index_map=rng.choice([None, [63, 64, 65, 0, 1], [127, 128, 129, 64, 2], [255, 256, 257, 300, 1]]))
            nq, body = gencirc.gen_circuit(rng, gates, prof)
            payload = stimtext.circuit_text(body)
        elif kind == 'convert':
            prof = gencirc.Profile(len_range=(5, 25), repeat=True, feedback=False, spp=False, mpp=False, pair_meas=False, resets=False)
            nq, body = gencirc.gen_circuit(rng, gates, prof)
            body = [i for i in body if i.name not in ('M', 'MX', 'MY', 'MPAD', 'MZ')]
            payload = stimtext.circuit_text(unitary_only(body))
            if not payload.strip():
                continue
        out = svh.request('widthdiff', [kind, rng.randrange(1 << 30), n], payload)
        rep.count(('c20-width', kind, payload, n), nontrivial=True)
        if out and out[0] != 'SAME':
            if out[-1].startswith('ERR'):
                continue
            rep.violation('width independence (%s)' % kind, 'wrong-result', {'kind': kind, 'n': n, 'circuit': payload},
                          'the same deterministic computation gives different results for W = 64 / 128 / 256', None, out[1:4])
    rep.sample({'shape': shapes[0], 'width': 64})
    svh.close()
    rep.cov['rule'] = ('A: random / basis / row / column 64x64 blocks vs the extracted model; B: shapes from %s (every residue mod 64/128/256 '
                       'on a stride) x patterns x W in {64,128,256} for 12 table primitives and 16 bit-vector primitives; C: identical '
                       'Tableau / TableauSimulator / circuit<->tableau computations under the three widths. Non-trivial = a dimension that '
                       'is not a multiple of W.' % sizes)


def unitary_only(body):
    out = []
    for i in body:
        if i.name == 'REPEAT':
            b = unitary_only(i.body)
            if b:
                i.body = b
                out.append(i)
        elif i.name.startswith('M') or i.name.startswith('R') or i.name in ('MPAD',):
            continue
        else:
            out.append(i)
    return out


def replay(path):
    r = json.load(open(path))
    print(json.dumps(r, indent=1))
    return 0
