"""C15 — loop-aware queries and circuit algebra agree with the unrolled program.
Proof: Counts.counts_eq_unrolled_saturating (add_saturate/mul_saturate as written = min(.,2^64-1); nested REPEAT counts =
min(exact unrolled count, 2^64-1) for any nesting). Tie H: every loop-aware query of the implementation vs (a) an interpreter
executing the unrolled instruction stream, (b) the extracted Counts model for astronomically large repeat counts;
histories of mutating API calls (ASan build) vs the expected flattened instruction stream."""
import json

from vlib import core, gatetable, stimtext

MAXU = (1 << 64) - 1


# ---------------------------------------------------------------------------------------------
# random nested programs with annotations
def gen_prog(rng, depth, meas_avail, big=False):
    """returns (lines, nested structure) ; structure: list of ('op', dict) | ('rep', reps, sub)"""
    items = []
    n = rng.randint(1, 6)
    added = 0
    for _ in range(n):
        k = rng.choice(['M', 'M', 'DET', 'OBS', 'TICK', 'QC', 'SC', 'H', 'SWEEP', 'FB', 'REP', 'MPP', 'MPAD'])
        avail = meas_avail + added
        if k == 'M':
            qs = [rng.randrange(6) for _ in range(rng.choice([1, 2, 3]))]
            items.append(('op', {'text': 'M ' + ' '.join(map(str, qs)), 'meas': len(qs), 'qubits': max(qs) + 1}))
            added += len(qs)
        elif k == 'MPP':
            items.append(('op', {'text': 'MPP X0*Z5 Y2', 'meas': 2, 'qubits': 6}))
            added += 2
        elif k == 'MPAD':
            items.append(('op', {'text': 'MPAD 0 1', 'meas': 2, 'qubits': 0, 'qubits_stats': 0}))   # MPAD's 0/1 targets are literal bits, not qubits (D31)
            added += 2
        elif k == 'DET' and avail:
            lb = [rng.randint(1, min(avail, 9)) for _ in range(rng.choice([1, 2]))]
            coords = [float(rng.randrange(5)) for _ in range(rng.choice([0, 1, 2, 3]))]
            items.append(('op', {'text': 'DETECTOR%s %s' % ('(' + ', '.join(stimtext.fmt_arg(c) for c in coords) + ')' if coords else '',
                                                            ' '.join('rec[-%d]' % x for x in lb)),
                                 'det': 1, 'coords': coords, 'lookback': max(lb)}))
        elif k == 'OBS' and avail:
            i = rng.choice([0, 1, 4, 9])
            lb = rng.randint(1, min(avail, 9))
            items.append(('op', {'text': 'OBSERVABLE_INCLUDE(%d) rec[-%d]' % (i, lb), 'obs': i + 1, 'lookback': lb}))
        elif k == 'TICK':
            items.append(('op', {'text': 'TICK', 'tick': 1}))
        elif k == 'QC':
            coords = [float(rng.randrange(5)) for _ in range(rng.choice([1, 2, 3]))]
            qs = [rng.randrange(8) for _ in range(rng.choice([1, 1, 2]))]
            if rng.random() < 0.2:
                qs.append(qs[0])
            items.append(('op', {'text': 'QUBIT_COORDS(%s) %s' % (', '.join(stimtext.fmt_arg(c) for c in coords), ' '.join(map(str, qs))),
                                 'qc': (coords, qs), 'qubits': max(qs) + 1}))
        elif k == 'SC':
            coords = [float(rng.randrange(4)) for _ in range(rng.choice([1, 2, 3, 4]))]
            items.append(('op', {'text': 'SHIFT_COORDS(%s)' % ', '.join(stimtext.fmt_arg(c) for c in coords), 'sc': coords}))
        elif k == 'H':
            q = rng.randrange(10)
            items.append(('op', {'text': 'H %d' % q, 'qubits': q + 1}))
        elif k == 'SWEEP':
            s = rng.randrange(7)
            items.append(('op', {'text': 'CX sweep[%d] 0' % s, 'sweep': s + 1, 'qubits': 1}))
        elif k == 'FB' and avail:
            lb = rng.randint(1, min(avail, 12))
            items.append(('op', {'text': 'CZ rec[-%d] 1' % lb, 'lookback': lb, 'qubits': 2}))
        elif k == 'REP' and depth < 3:
            sub, subadd = gen_prog(rng, depth + 1, avail, big)
            if not sub:
                continue
            if big:
                reps = rng.choice([1, 2, 3, 1000003, 1 << 20, 1 << 32, (1 << 32) + 1, 1 << 40, (1 << 62) + 5, (1 << 63) - 1, 1 << 63])
            else:
                reps = rng.choice([1, 2, 3, 4, 7])
            items.append(('rep', reps, sub))
            added += subadd * min(reps, 50)
    return items, added


def render(items, indent=0):
    out = []
    for it in items:
        if it[0] == 'op':
            out.append(' ' * indent + it[1]['text'])
        else:
            out.append(' ' * indent + 'REPEAT %d {' % it[1])
            out += render(it[2], indent + 4)
            out.append(' ' * indent + '}')
    return out


def unroll(items, out):
    for it in items:
        if it[0] == 'op':
            out.append(it[1])
        else:
            for _ in range(it[1]):
                unroll(it[2], out)


def reference(items):
    """execute the unrolled stream"""
    ops = []
    unroll(items, ops)
    r = {'meas': 0, 'det': 0, 'obs': 0, 'tick': 0, 'sweep': 0, 'qubits': 0, 'qubits_stats': 0, 'lookback': 0}
    shift = []
    qc = {}
    dc = {}
    for o in ops:
        r['meas'] += o.get('meas', 0)
        r['tick'] += o.get('tick', 0)
        r['obs'] = max(r['obs'], o.get('obs', 0))
        r['sweep'] = max(r['sweep'], o.get('sweep', 0))
        r['qubits'] = max(r['qubits'], o.get('qubits', 0))
        r['qubits_stats'] = max(r['qubits_stats'], o.get('qubits_stats', o.get('qubits', 0)))
        r['lookback'] = max(r['lookback'], o.get('lookback', 0))
        if 'sc' in o:
            for k, a in enumerate(o['sc']):
                if k >= len(shift):
                    shift.append(0.0)
                shift[k] += a
        if 'qc' in o:
            coords, qs = o['qc']
            for q in qs:
                qc[q] = [a + (shift[k] if k < len(shift) else 0.0) for k, a in enumerate(coords)]
        if 'det' in o:
            dc[r['det']] = [a + (shift[k] if k < len(shift) else 0.0) for k, a in enumerate(o['coords'])]
            r['det'] += 1
    r['shift'] = shift
    r['qc'] = qc
    r['dc'] = dc
    return r


def coords_tokens(items):
    """the program for the extracted QCoords model: S d,.. | Q a,.. q,.. | R n (n + 1 repetitions) ... E"""
    out = []
    for it in items:
        if it[0] == 'op':
            o = it[1]
            if 'sc' in o:
                out.append('S ' + ','.join(str(int(a)) for a in o['sc']))
            if 'qc' in o:
                coords, qs = o['qc']
                out.append('Q %s %s' % (','.join(str(int(a)) for a in coords) if coords else '-', ','.join(map(str, qs))))
        else:
            out.append('R %d' % (it[1] - 1))
            out += coords_tokens(it[2])
            out.append('E')
    return out


def parse_model_coords(line, part):
    """'ff: q=c,c q=c | s,s ex: ...' -> (dict q -> list, shift list) of the named part"""
    seg = line.split(part + ': ', 1)[1]
    if part == 'ff' and ' ex: ' in seg:
        seg = seg.split(' ex: ')[0]
    cs, sh = seg.split('|')
    qc = {}
    for tok in cs.split():
        q, v = tok.split('=')
        qc[int(q)] = [float(x) for x in v.split(',')] if v else []
    return qc, [float(x) for x in sh.strip().split(',') if x]


def counts_tokens(items, key):
    toks = []
    for it in items:
        if it[0] == 'op':
            toks.append(str(it[1].get(key, 0)))
        else:
            toks += ['(', str(it[1])] + counts_tokens(it[2], key) + [')']
    return toks


def parse_coords(s):
    s = s.strip()[1:-1]
    return [float(x) for x in s.split(',')] if s else []


def run(rep, tier):
    quick = tier == 'quick'
    svh = core.Svh('asan', timeout=120)
    rep.set_proof(core.prove(['Properties_C15.v']))
    rep.trusted += ['Coq 8.16.1 kernel', 'extraction + runner/main.ml', 'harness/c15.cc', 'ASan/UBSan for aliasing of real storage',
                    'the implementation\'s own text parser/printer as canonicaliser of expected instruction streams (C07 covers it)']
    rep.assumptions += ['coordinates use small integers so double arithmetic is exact',
                        'ownership of spans is checked on the real heap by ASan, not modelled']
    rng = rep.rng()

    # ---------- A. loop-aware queries vs the unrolled stream
    NA = 600 if quick else 20000
    coord_in = []
    coord_meta = []
    for _ in range(NA):
        items, _ = gen_prog(rng, 0, 0)
        text = '\n'.join(render(items))
        if not text.strip():
            continue
        ref = reference(items)
        try:
            out = svh.request('cstats', [500, rng.randrange(1 << 30)], text)
        except core.Crash as e:
            rep.violation('Circuit loop-aware queries', 'oob' if 'Sanitizer' in e.stderr else 'crash', text, str(e) + e.stderr[-1500:])
            continue
        if out and out[-1].startswith('ERR'):
            rep.broken_obligation('generator-produced-invalid-circuit', {'circuit': text, 'error': out[-1]})
            continue
        got = {}
        qc = {}
        dc = {}
        dsub = {}
        dsubq = {}
        for l in out:
            t = l.split(' ', 1)
            if t[0] == 'qcoord':
                q, c = t[1].split(' ', 1)
                qc[int(q)] = parse_coords(c)
            elif t[0] == 'dcoord':
                q, c = t[1].split(' ', 1)
                dc[int(q)] = parse_coords(c)
            elif t[0] == 'dsub':
                r_, q, c = (t[1].split(' ', 2) + [''])[:3]
                dsub.setdefault(int(r_), {})[int(q)] = parse_coords(c)
            elif t[0] == 'dsubq':
                tt = t[1].split(' ')
                dsubq[int(tt[0])] = [int(x) for x in tt[1:]]
            elif t[0] == 'final_coord_shift':
                got['shift'] = parse_coords(t[1])
            elif t[0] in ('stats', 'dcoord_single_last'):
                got[t[0]] = t[1]
            else:
                got[t[0]] = int(t[1])
        depth = max_depth(items)
        rep.count(('c15-a', text), nontrivial=depth >= 2)
        exp = {'count_qubits': ref['qubits'], 'count_measurements': ref['meas'], 'count_detectors': ref['det'],
               'count_observables': ref['obs'], 'count_ticks': ref['tick'], 'count_sweep_bits': ref['sweep'], 'max_lookback': ref['lookback']}
        for k, v in exp.items():
            if got.get(k) != v:
                rep.violation('Circuit::' + k, 'wrong-result', text, 'differs from executing the unrolled instruction stream', v, got.get(k))
        st = '%d %d %d %d %d %d %d' % (ref['det'], ref['obs'], ref['meas'], ref['qubits_stats'], ref['tick'], ref['lookback'], ref['sweep'])
        if got.get('stats') != st:
            rep.violation('Circuit::compute_stats', 'wrong-result', text, 'differs from the unrolled stream', st, got.get('stats'))
        if trim(got.get('shift', [])) != trim(ref['shift']):
            rep.violation('Circuit::final_coord_shift', 'wrong-result', text, 'differs from the unrolled stream', ref['shift'], got.get('shift'))
        if qc != ref['qc']:
            rep.violation('Circuit::get_final_qubit_coords', 'wrong-result', text, 'differs from the unrolled stream (last QUBIT_COORDS of a '
                          'qubit wins, shifted by the coordinate shift in effect)', ref['qc'], qc)
        if ref['det'] <= 500 and dc != ref['dc']:
            rep.violation('Circuit::get_detector_coordinates', 'wrong-result', text, 'differs from the unrolled stream', ref['dc'], dc)
        if ref['det'] <= 500:
            for r_, want in dsubq.items():
                exp_sub = {k: ref['dc'].get(k) for k in want}
                if dsub.get(r_, {}) != exp_sub:
                    rep.violation('Circuit::get_detector_coordinates', 'wrong-result', {'circuit': text, 'indices': want},
                                  'a query for several (not all) detector indices differs from the unrolled stream', exp_sub, dsub.get(r_, {}))
                    break
        toks = coords_tokens(items)
        if any(t.startswith('Q') for t in toks):
            coord_in.append('qcoords 16 5 1 ; ' + ' ; '.join(toks))
            coord_meta.append((text, qc, got.get('shift', []), True))
    rep.sample({'nested_circuit': text})

    # ---------- B. astronomically large repeat counts: saturating counts vs the Coq model
    NB = 300 if quick else 5000
    model_in = []
    meta = []
    for _ in range(NB):
        items, _ = gen_prog(rng, 0, 0, big=True)
        text = '\n'.join(render(items))
        if 'REPEAT' not in text:
            continue
        out = svh.request('cstats', [0], text)
        if out and out[-1].startswith('ERR'):
            continue
        got = {l.split(' ')[0]: l.split(' ', 1)[1] for l in out}
        toks = coords_tokens(items)
        if any(t.startswith('Q') for t in toks):
            qcb = {}
            for l in out:
                t = l.split(' ', 1)
                if t[0] == 'qcoord':
                    q, c = t[1].split(' ', 1)
                    qcb[int(q)] = parse_coords(c)
            coord_in.append('qcoords 16 5 0 ; ' + ' ; '.join(toks))
            coord_meta.append((text, qcb, parse_coords(got.get('final_coord_shift', '')), False))
        stt = got.get('stats', '').split(' ')
        for key, name, spos in (('meas', 'count_measurements', 2), ('det', 'count_detectors', 0), ('tick', 'count_ticks', 4)):
            model_in.append('counts ' + ' '.join(counts_tokens(items, key)))
            meta.append((text, name, got.get(name)))
            if len(stt) == 7:
                model_in.append('counts ' + ' '.join(counts_tokens(items, key)))
                meta.append((text, 'compute_stats (%s)' % key, stt[spos]))
    mo = core.run_svm('\n'.join(model_in) + '\n')
    for (text, name, got), m in zip(meta, mo):
        sat, exact = m.split(' ')
        rep.count(('c15-b', text, name), nontrivial=int(exact) > MAXU)
        if int(sat) != min(int(exact), MAXU):
            rep.broken_obligation('Counts.sat_block-vs-min', {'circuit': text, 'model': m})
        if got != sat:
            rep.violation('Circuit::' + name, 'wrong-result', text,
                          'count for huge repeat counts differs from min(unrolled count, 2^64-1)', sat, got)

    # ---------- B'. final qubit coordinates and shift vs the extracted fast-forward model (QCoords.ffl), any repeat count
    co = core.run_svm('\n'.join(coord_in) + '\n', timeout=1200) if coord_in else []
    for (text, qc, shift, small), line in zip(coord_meta, co):
        if not line.startswith('ff: '):
            rep.broken_obligation('QCoords-model-run', {'circuit': text, 'model': line})
            continue
        mq, ms = parse_model_coords(line, 'ff')
        if small:
            eq, es = parse_model_coords(line, 'ex')
            if (mq, ms) != (eq, es):
                rep.broken_obligation('QCoords.ffl-vs-execl', {'circuit': text, 'model': line})
        big = max([abs(x) for v in mq.values() for x in v] + [abs(x) for x in ms] + [0])
        rep.count(('c15-q', text), nontrivial=not small or 'REPEAT' in text)
        if big >= 2 ** 52:
            continue          # beyond exact double arithmetic: not comparable
        if {q: v for q, v in qc.items() if q < 16} != mq:
            rep.violation('Circuit::get_final_qubit_coords', 'wrong-result', text,
                          'differs from the fast-forward model proved equal to the unrolled program (QCoords.ffc_is_unrolled)', mq, qc)
        if trim(shift) != trim(ms):
            rep.violation('Circuit::final_coord_shift', 'wrong-result', text, 'differs from the model', ms, shift)

    # ---------- C. DEM loop-aware queries
    dem_queries(rep, svh, rng, 300 if quick else 8000)

    # ---------- D. histories of mutating API calls under ASan
    histories(rep, svh, rng, 250 if quick else 8000)
    dem_histories(rep, svh, rng, 200 if quick else 6000)
    svh.close()
    rep.cov['rule'] = ('A: random nested programs (depth <= 3) of M/MPP/MPAD/DETECTOR/OBSERVABLE_INCLUDE/TICK/QUBIT_COORDS (repeated qubits)/'
                       'SHIFT_COORDS of varying arity/sweep/feedback vs an interpreter of the unrolled stream; B: repeat counts up to 2^63 vs '
                       'the extracted Counts model; C: DEM queries; D: histories of 3-14 API calls incl. self operands under ASan. '
                       'Non-trivial = nesting depth >= 2 (A), exact count above 2^64 (B), self-operand or tagged block (D).')


def trim(v):
    v = list(v)
    while v and v[-1] == 0:
        v.pop()
    return v


def max_depth(items):
    d = 0
    for it in items:
        if it[0] == 'rep':
            d = max(d, 1 + max_depth(it[2]))
    return d


# ---------------------------------------------------------------------------------------------
def gen_dem(rng, depth):
    items = []
    for _ in range(rng.randint(1, 5)):
        k = rng.choice(['err', 'err', 'det', 'shift', 'obs', 'rep'])
        if k == 'err':
            ts = ['D%d' % rng.randrange(6) for _ in range(rng.choice([1, 2, 3]))]
            if rng.random() < 0.3:
                ts.append('L%d' % rng.randrange(3))
            if rng.random() < 0.2 and len(ts) >= 2:
                ts.insert(1, '^')
            items.append(('op', {'text': 'error(0.125) ' + ' '.join(ts), 'err': 1, 'targets': ts}))
        elif k == 'det':
            coords = [float(rng.randrange(4)) for _ in range(rng.choice([0, 1, 2]))]
            d = rng.randrange(6)
            items.append(('op', {'text': 'detector%s D%d' % ('(' + ', '.join(stimtext.fmt_arg(c) for c in coords) + ')' if coords else '', d),
                                 'detdecl': (d, coords)}))
        elif k == 'obs':
            items.append(('op', {'text': 'logical_observable L%d' % rng.randrange(4)}))
        elif k == 'shift':
            coords = [float(rng.randrange(3)) for _ in range(rng.choice([0, 1, 2, 3]))]
            n = rng.choice([0, 1, 2, 5])
            items.append(('op', {'text': 'shift_detectors%s %d' % ('(' + ', '.join(stimtext.fmt_arg(c) for c in coords) + ')' if coords else '', n),
                                 'shift': (n, coords)}))
        elif depth < 3:
            sub = gen_dem(rng, depth + 1)
            items.append(('rep', rng.choice([1, 2, 3, 5]), sub))
    return items


def render_dem(items, indent=0):
    out = []
    for it in items:
        if it[0] == 'op':
            out.append(' ' * indent + it[1]['text'])
        else:
            out.append(' ' * indent + 'repeat %d {' % it[1])
            out += render_dem(it[2], indent + 4)
            out.append(' ' * indent + '}')
    return out


def dem_queries(rep, svh, rng, count):
    for _ in range(count):
        items = gen_dem(rng, 0)
        text = '\n'.join(render_dem(items))
        ops = []
        unroll(items, ops)
        doff = 0
        cshift = []
        ndet = 0
        nobs = 0
        nerr = 0
        dc = {}
        for o in ops:
            if 'err' in o:
                nerr += 1
                for t in o['targets']:
                    if t[0] == 'D':
                        ndet = max(ndet, doff + int(t[1:]) + 1)
                    elif t[0] == 'L':
                        nobs = max(nobs, int(t[1:]) + 1)
            if 'detdecl' in o:
                d, coords = o['detdecl']
                ndet = max(ndet, doff + d + 1)
                dc.setdefault(doff + d, []).append([a + (cshift[k] if k < len(cshift) else 0.0) for k, a in enumerate(coords)])
            if o['text'].startswith('logical_observable'):
                nobs = max(nobs, int(o['text'].split('L')[-1]) + 1)
            if 'shift' in o:
                n, coords = o['shift']
                doff += n
                for k, a in enumerate(coords):
                    if k >= len(cshift):
                        cshift.append(0.0)
                    cshift[k] += a
        try:
            out = svh.request('dstats', [300], text)
        except core.Crash as e:
            rep.violation('DetectorErrorModel loop-aware queries', 'crash', text, str(e) + e.stderr[-1200:])
            continue
        if out and out[-1].startswith('ERR'):
            rep.broken_obligation('generator-produced-invalid-dem', {'dem': text, 'error': out[-1]})
            continue
        got = {}
        gdc = {}
        for l in out:
            t = l.split(' ', 1)
            if t[0] == 'dcoord':
                q, c = t[1].split(' ', 1)
                gdc[int(q)] = parse_coords(c)
            elif t[0] == 'final_shift':
                n, c = t[1].split(' ', 1)
                got['final_shift'] = (int(n), trim(parse_coords(c)))
            else:
                got[t[0]] = int(t[1])
        rep.count(('c15-dem', text), nontrivial=max_depth(items) >= 1)
        exp = {'count_detectors': ndet, 'count_observables': nobs, 'count_errors': nerr, 'total_detector_shift': doff}
        for k, v in exp.items():
            if got.get(k) != v:
                rep.violation('DetectorErrorModel::' + k, 'wrong-result', text, 'differs from executing the unrolled model', v, got.get(k))
        if got.get('final_shift') != (doff, trim(cshift)):
            rep.violation('DetectorErrorModel::final_detector_and_coord_shift', 'wrong-result', text, 'differs from the unrolled model',
                          (doff, trim(cshift)), got.get('final_shift'))
        # declared detectors without coordinates report an empty coordinate list; undeclared ones too
        exp_dc = {d: dc.get(d, [[]]) for d in range(ndet)}
        if ndet <= 300 and (set(gdc) != set(exp_dc) or any(gdc[d] not in exp_dc[d] for d in gdc)):
            rep.violation('DetectorErrorModel::get_detector_coordinates', 'wrong-result', text,
                          'differs from the unrolled model (a detector declared more than once may report any of its declarations)', exp_dc, gdc)


# ---------------------------------------------------------------------------------------------
SNIPPETS = ['H 0', 'X 1', 'H 0;X 1;H 0', 'M 0 1;DETECTOR rec[-1]', 'CX 0 1;TICK', 'X_ERROR(0.125) 0', 'H[tagA] 0', 'M[tg] 0;H 1',
            'REPEAT 2 {;    H 0;    M 0;}', 'REPEAT[rtag] 3 {;    X 1;}', 'S 2;S 2', 'QUBIT_COORDS(1, 2) 0', 'MPP X0*Y1 Z2', '',
            'H 0;REPEAT 2 {;    REPEAT[inner] 2 {;        CX 0 1;    };    M 1;}']


def flat_lines(svh, text):
    out = svh.request('canon', ['circuit_flat'], text.replace(';', '\n'))
    if out and out[-1].startswith('ERR'):
        raise ValueError(out[-1])
    return [l for l in out if l.strip()]


def histories(rep, svh, rng, count):
    for _ in range(count):
        names = []
        ops = []
        expect = {}        # name -> expected text (unflattened concatenation semantic, as ';' joined lines), None if deleted
        lines = []
        special = False
        for k in range(rng.randint(1, 3)):
            nm = 'o%d' % k
            t = rng.choice(SNIPPETS)
            lines.append('NEW %s %s' % (nm, t))
            expect[nm] = t
            names.append(nm)
        nxt = len(names)
        for _ in range(rng.randint(2, 11)):
            live = [n for n in names if expect.get(n) is not None]
            if not live:
                break
            op = rng.choice(['ADD', 'IADD', 'IADD', 'MUL', 'IMUL', 'INSERT', 'INSERTREP', 'APPENDREP', 'APPENDTEXT', 'SLICE', 'COPY', 'ASSIGN',
                             'CLEAR', 'DEL', 'INSERTOP'])
            a = rng.choice(live)
            b = rng.choice(live)
            if op == 'ADD':
                c = 'o%d' % nxt
                nxt += 1
                lines.append('ADD %s %s %s' % (a, b, c))
                expect[c] = join(expect[a], expect[b])
                names.append(c)
                special = special or a == b
            elif op == 'IADD':
                lines.append('IADD %s %s' % (a, b))
                expect[a] = join(expect[a], expect[b])
                special = special or a == b
            elif op in ('MUL', 'IMUL'):
                r = rng.choice([1, 2, 3])
                body = expect[a]
                res = repeat_text(body, r)
                if op == 'MUL':
                    c = 'o%d' % nxt
                    nxt += 1
                    lines.append('MUL %s %d %s' % (a, r, c))
                    expect[c] = res
                    names.append(c)
                else:
                    lines.append('IMUL %s %d' % (a, r))
                    expect[a] = res
            elif op == 'INSERT':
                lines.append('INSERT %s 0 %s' % (a, b))
                expect[a] = join(expect[b], expect[a])
                special = special or a == b
            elif op == 'INSERTREP':
                tag = rng.choice(['-', 'itag'])
                r = rng.choice([1, 2])
                if isinstance(expect[b], tuple) or not expect[b].strip(';'):
                    continue
                lines.append('INSERTREP %s 0 %d %s %s' % (a, r, b, tag))
                expect[a] = join(block_text(expect[b], r, tag), expect[a])
                special = special or tag != '-'
            elif op == 'APPENDREP':
                tag = rng.choice(['-', 'atag'])
                r = rng.choice([1, 2])
                if isinstance(expect[b], tuple) or not expect[b].strip(';'):
                    continue
                lines.append('APPENDREP %s %d %s %s' % (a, r, b, tag))
                expect[a] = join(expect[a], block_text(expect[b], r, tag))
                special = special or tag != '-' or a == b
            elif op == 'APPENDTEXT':
                t = rng.choice(SNIPPETS)
                lines.append('APPENDTEXT %s %s' % (a, t))
                expect[a] = join(expect[a], t)
            elif op == 'COPY':
                c = 'o%d' % nxt
                nxt += 1
                lines.append('COPY %s %s' % (a, c))
                expect[c] = expect[a]
                names.append(c)
            elif op == 'ASSIGN':
                lines.append('ASSIGN %s %s' % (a, b))
                expect[a] = expect[b]
                special = special or a == b
            elif op == 'CLEAR':
                lines.append('CLEAR %s' % a)
                expect[a] = ''
            elif op == 'DEL':
                if len(live) > 1:
                    lines.append('DEL %s' % a)
                    expect[a] = None
            elif op == 'SLICE':
                c = 'o%d' % nxt
                nxt += 1
                lines.append('SLICE %s 0 1 1 %s' % (a, c))     # first top-level instruction
                expect[c] = ('slice', a, expect[a])
                names.append(c)
                special = True
            elif op == 'INSERTOP':
                lines.append('INSERTOP %s 0 %s' % (a, b))
                expect[a] = ('insertop', expect[b], expect[a])
        for n in names:
            if expect.get(n) is not None:
                lines.append('FLAT %s' % n)
        try:
            out = svh.request('calg', [], '\n'.join(lines))
        except core.Crash as e:
            klass = 'uaf' if 'use-after-free' in e.stderr else ('oob' if 'Sanitizer' in e.stderr else 'crash')
            rep.violation('Circuit algebra', klass, '\n'.join(lines), 'sequence of API calls failed under ASan: ' + str(e) + e.stderr[-1800:])
            continue
        rep.count(('c15-hist', tuple(lines)), nontrivial=special)
        flats = {l.split(' ', 2)[1]: (l.split(' ', 2) + [''])[2] for l in out if l.startswith('FLAT ')}
        if any(l.startswith('OPERR') for l in out):
            # an operation threw: later expectations are unreliable (e.g. index errors on empty circuits); skip comparison
            continue
        for n in names:
            e = expect.get(n)
            if e is None or isinstance(e, tuple) or n not in flats:
                continue
            if has_tuple(e):
                continue
            try:
                want = flat_lines(svh, e)
            except (ValueError, core.Crash):
                continue
            got = [l for l in flats[n].split(';') if l.strip()]
            if got != [w for w in want]:
                rep.violation('Circuit algebra', 'wrong-result', '\n'.join(lines),
                              'object %s: flattened instruction stream differs from the expected combination of its operands' % n,
                              ';'.join(want)[:400], ';'.join(got)[:400])
                break


DEM_SNIPPETS = ['error(0.125) D0', 'error(0.25) D0 D1 L0', 'error[etag](0.125) D2 ^ D3', 'detector(1, 2) D0', 'shift_detectors(1) 2',
                'repeat 2 {;    error(0.125) D0;    shift_detectors 1;}', 'repeat[rt] 3 {;    error[in](0.5) D1 L1;}', 'logical_observable L2', '']


def dem_histories(rep, svh, rng, count):
    for _ in range(count):
        names = []
        expect = {}
        lines = []
        special = False
        for k in range(rng.randint(1, 3)):
            nm = 'd%d' % k
            t = rng.choice(DEM_SNIPPETS)
            lines.append('NEW %s %s' % (nm, t))
            expect[nm] = t
            names.append(nm)
        nxt = len(names)
        for _ in range(rng.randint(2, 10)):
            live = [n for n in names if expect.get(n) is not None]
            if not live:
                break
            op = rng.choice(['ADD', 'IADD', 'IADD', 'MUL', 'IMUL', 'APPENDREP', 'APPENDTEXT', 'SLICE', 'COPY', 'ASSIGN', 'CLEAR', 'DEL'])
            a = rng.choice(live)
            b = rng.choice(live)
            if op == 'ADD':
                c = 'd%d' % nxt
                nxt += 1
                lines.append('ADD %s %s %s' % (a, b, c))
                expect[c] = join(expect[a], expect[b])
                names.append(c)
                special = special or a == b
            elif op == 'IADD':
                lines.append('IADD %s %s' % (a, b))
                expect[a] = join(expect[a], expect[b])
                special = special or a == b
            elif op in ('MUL', 'IMUL'):
                r = rng.choice([1, 2, 3])
                body = expect[a]
                res = ('rep', body) if isinstance(body, tuple) else ('' if not body.strip(';') else (body if r == 1 else 'repeat %d {;%s;}' % (r, indent_text(body))))
                if op == 'MUL':
                    c = 'd%d' % nxt
                    nxt += 1
                    lines.append('MUL %s %d %s' % (a, r, c))
                    expect[c] = res
                    names.append(c)
                else:
                    lines.append('IMUL %s %d' % (a, r))
                    expect[a] = res
            elif op == 'APPENDREP':
                tag = rng.choice(['-', 'atag'])
                r = rng.choice([1, 2])
                if isinstance(expect[b], tuple) or not expect[b].strip(';'):
                    continue
                lines.append('APPENDREP %s %d %s %s' % (a, r, b, tag))
                expect[a] = join(expect[a], 'repeat%s %d {;%s;}' % ('[' + tag + ']' if tag != '-' else '', r, indent_text(expect[b])))
                special = special or tag != '-' or a == b
            elif op == 'APPENDTEXT':
                t = rng.choice(DEM_SNIPPETS)
                lines.append('APPENDTEXT %s %s' % (a, t))
                expect[a] = join(expect[a], t)
            elif op == 'COPY':
                c = 'd%d' % nxt
                nxt += 1
                lines.append('COPY %s %s' % (a, c))
                expect[c] = expect[a]
                names.append(c)
            elif op == 'ASSIGN':
                lines.append('ASSIGN %s %s' % (a, b))
                expect[a] = expect[b]
            elif op == 'CLEAR':
                lines.append('CLEAR %s' % a)
                expect[a] = ''
            elif op == 'DEL':
                if len(live) > 1:
                    lines.append('DEL %s' % a)
                    expect[a] = None
            elif op == 'SLICE':
                c = 'd%d' % nxt
                nxt += 1
                lines.append('SLICE %s 0 1 1 %s' % (a, c))
                expect[c] = ('slice', a)
                names.append(c)
                special = True
        for n in names:
            if expect.get(n) is not None:
                lines.append('FLAT %s' % n)
        try:
            out = svh.request('dalg', [], '\n'.join(lines))
        except core.Crash as e:
            klass = 'uaf' if 'use-after-free' in e.stderr else ('oob' if 'Sanitizer' in e.stderr else 'crash')
            rep.violation('DetectorErrorModel algebra', klass, '\n'.join(lines), 'sequence of API calls failed under ASan: ' + str(e) + e.stderr[-1800:])
            continue
        rep.count(('c15-dhist', tuple(lines)), nontrivial=special)
        if any(l.startswith('OPERR') for l in out):
            continue
        flats = {l.split(' ', 2)[1]: (l.split(' ', 2) + [''])[2] for l in out if l.startswith('FLAT ')}
        for n in names:
            e = expect.get(n)
            if e is None or isinstance(e, tuple) or n not in flats:
                continue
            try:
                o2 = svh.request('canon', ['dem_flat'], e.replace(';', '\n'))
            except core.Crash:
                continue
            if o2 and o2[-1].startswith('ERR'):
                continue
            want = [l for l in o2 if l.strip()]
            got = [l for l in flats[n].split(';') if l.strip()]
            if got != want:
                rep.violation('DetectorErrorModel algebra', 'wrong-result', '\n'.join(lines),
                              'object %s: flattened model differs from the expected combination of its operands' % n,
                              ';'.join(want)[:400], ';'.join(got)[:400])
                break


def has_tuple(e):
    return isinstance(e, tuple)


def join(a, b):
    if isinstance(a, tuple) or isinstance(b, tuple):
        return ('join', a, b)
    if not a:
        return b
    if not b:
        return a
    return a + ';' + b


def indent_text(t):
    return ';'.join('    ' + l for l in t.split(';') if l.strip())


def block_text(body, r, tag):
    if isinstance(body, tuple):
        return ('block', body)
    return 'REPEAT%s %d {;%s;}' % ('[' + tag + ']' if tag != '-' else '', r, indent_text(body))


def repeat_text(body, r):
    if isinstance(body, tuple):
        return ('rep', body)
    if not body.strip(';'):
        return ''
    if r == 1:
        return body
    return 'REPEAT %d {;%s;}' % (r, indent_text(body))


def replay(path):
    r = json.load(open(path))
    print(json.dumps(r, indent=1))
    return 0
