"""C17 — logical-error searches return genuine, and where promised shortest, errors.
Proofs: cycle_lemma, simple_exists, graphlike_lower_bound (every undetectable logical error of graph edges gives a state path of
length <= |E|-1), bfs_nearest (the queue BFS as written returns a nearest goal).
Tie O: on small random models the results of the real searches are checked for validity (members are errors or suggested
components of the model, detection events cancel, an observable flips) and for minimality against an exhaustive minimum; the
generated WCNF files are parsed and solved by exhaustive search."""
import itertools
import json
import math

from vlib import core, demtext


def gen_small_dem(rng, graphlike_only):
    nd = rng.choice([2, 3, 4, 5])
    nobs = rng.choice([1, 1, 2, 3])
    if rng.random() < 0.05:
        nobs = 70
    lines = []
    nerr = rng.randint(1, 11)
    for _ in range(nerr):
        k = rng.choice([0, 1, 1, 2, 2, 2, 3]) if not graphlike_only else rng.choice([0, 1, 1, 2, 2, 2])
        ds = [rng.randrange(nd) for _ in range(k)]
        r = rng.random()
        if r < 0.7:
            ds = list(dict.fromkeys(ds))           # mostly distinct; sometimes repeated (cancelling) detectors
        elif r < 0.85 and ds:
            # a detector repeated around / between other detectors: D0 D1 D0, D0 D1 D2 D0, D1 D0 D0 ...
            ds = list(dict.fromkeys(ds))
            x = rng.choice(ds)
            pos = sorted(rng.sample(range(len(ds) + 1), 1))[0]
            ds = ds[:pos] + [x] + ds[pos:]
            if rng.random() < 0.3:
                ds.append(rng.choice(ds))
        ts = ['D%d' % d for d in ds]
        if rng.random() < 0.4:
            ts.append('L%d' % rng.randrange(nobs))
            if rng.random() < 0.1:
                ts.append('L%d' % rng.randrange(nobs))
        if not ts:
            continue
        if len(ts) >= 3 and rng.random() < 0.3:
            ts.insert(rng.randrange(1, len(ts)), '^')
        p = rng.choice([0.0, 0.01, 0.1, 0.125, 0.25, 0.4, 0.5, 0.6])
        rng.shuffle(ts) if '^' not in ts else None
        lines.append('error(%r) %s' % (p, ' '.join(ts)))
    if rng.random() < 0.2 and lines:
        k = rng.randrange(len(lines))
        body = lines[k:]
        lines = lines[:k] + ['repeat %d {' % rng.choice([1, 2])] + ['    ' + l for l in body] + ['    shift_detectors %d' % rng.choice([0, 1]), '}']
    if rng.random() < 0.3:
        lines.append('detector(1, 2) D%d' % (nd - 1))
    return '\n'.join(lines)


def components(targets):
    comps = [[]]
    for t in targets:
        if t == '^':
            comps.append([])
        else:
            comps[-1].append(t)
    return comps


def sym(ts):
    s = set()
    for t in ts:
        if t in s:
            s.remove(t)
        else:
            s.add(t)
    return frozenset(s)


def flat_errors_with_components(text):
    """list of (p, full symptom, [component symptoms]) in absolute ids"""
    instrs = demtext.parse(text)
    out = []
    off = [0]

    def go(l):
        for i in l:
            if i.kind == 'repeat':
                for _ in range(i.reps):
                    go(i.body)
            elif i.kind == 'shift_detectors':
                if i.targets:
                    off[0] += int(i.targets[0])
            elif i.kind == 'error':
                ts = [t if t == '^' or t[0] != 'D' else 'D%d' % (int(t[1:]) + off[0]) for t in i.targets]
                comps = [sym(c) for c in components(ts)]
                out.append((i.args[0], sym([t for t in ts if t != '^']), comps))
    go(instrs)
    return out


def is_undetectable_logical(symptoms):
    tot = set()
    for s in symptoms:
        tot ^= s
    return tot and all(t[0] == 'L' for t in tot)


def brute_min(cands, limit=15):
    """minimum number of symptom sets from cands (each usable once) XORing to observables only, non-empty; None if none"""
    cands = [c for c in cands]
    n = len(cands)
    if n > limit:
        return None
    for k in range(1, n + 1):
        for combo in itertools.combinations(range(n), k):
            if is_undetectable_logical([cands[i] for i in combo]):
                return k
    return math.inf


def graphlike_edges(errs, ignore_ungraphlike):
    """the edges the graphlike search may use. ignore_ungraphlike_errors=False: every suggested component (a component with more
    than two detectors makes the model unacceptable); True: only errors without separators and with at most two detectors
    (errors carrying a suggested decomposition are skipped as a whole -- the implementation's reading of the flag, taken as
    the definition here). Zero-probability errors are not part of the graph."""
    edges = []
    bad = False
    for p, full, comps in errs:
        if p == 0:
            continue
        if ignore_ungraphlike:
            if len(comps) == 1 and sum(1 for t in comps[0] if t[0] == 'D') <= 2 and comps[0]:
                edges.append(comps[0])
            continue
        for c in comps:
            nd = sum(1 for t in c if t[0] == 'D')
            if nd > 2:
                bad = True
                continue
            if c:
                edges.append(c)
    return edges, bad


def parse_result(lines):
    txt = '\n'.join(lines)
    return flat_errors_with_components(txt)


def run(rep, tier):
    quick = tier == 'quick'
    svh = core.Svh('o1', timeout=60)
    from checks import c11
    rep.set_proof(c11.prove_shared(['Properties_C17.v']))
    rep.trusted += ['Coq 8.16.1 kernel', 'harness/c17.cc', 'exhaustive minimum over subsets (Python) on models with <= 15 usable symptom sets']
    rep.assumptions += ['the graph builder Graph::from_dem and the hypergraph search are tied by the exhaustive oracle, not modelled in Coq; '
                        'the instantiation of bfs_nearest with the search\'s successor function is not assembled']
    rng = rep.rng()
    N = 1500 if quick else 20000
    for _ in range(N):
        glike = rng.random() < 0.6
        text = gen_small_dem(rng, glike)
        if not text.strip():
            continue
        errs = flat_errors_with_components(text)
        # ---------- graphlike search
        ignore = rng.random() < 0.5
        edges, has_ungraphlike = graphlike_edges(errs, ignore)
        try:
            out = svh.request('search', ['graphlike', int(ignore)], text)
        except core.Crash as e:
            rep.violation('shortest_graphlike_undetectable_logical_error', 'crash', text, str(e) + e.stderr[-1000:])
            continue
        err = out[-1].startswith('ERR') if out else True
        # distinct edges only (the graph de-duplicates identical edges; duplicates cannot lower the minimum below 2 identical = cancel)
        uniq = list(dict.fromkeys(edges))
        bm = brute_min(uniq)
        rep.count(('c17-g', text, ignore), nontrivial=bm not in (None, math.inf) and bm >= 2)
        if has_ungraphlike and not ignore:
            if not err:
                rep.violation('shortest_graphlike_undetectable_logical_error', 'accept-invalid', text,
                              'model has a component with more than two detectors and ignore_ungraphlike_errors is off, but a result was returned')
        elif bm is not None:
            if err:
                if bm != math.inf:
                    rep.violation('shortest_graphlike_undetectable_logical_error', 'wrong-result', {'dem': text, 'ignore_ungraphlike_errors': ignore},
                                  'search failed (%s) although an undetectable logical error of %d graphlike errors exists' % (out[-1][:120], bm))
            else:
                res = parse_result(out[1:])
                got_syms = [full for p, full, comps in res]
                allowed = set(uniq)
                ok_members = all(s in allowed for s in got_syms)
                if not ok_members or not is_undetectable_logical(got_syms):
                    rep.violation('shortest_graphlike_undetectable_logical_error', 'wrong-result', {'dem': text, 'ignore_ungraphlike_errors': ignore},
                                  'returned set is not an undetectable logical error made of the model\'s graphlike errors/components',
                                  None, [sorted(s) for s in got_syms])
                elif bm == math.inf or len(got_syms) != bm:
                    rep.violation('shortest_graphlike_undetectable_logical_error', 'wrong-result', {'dem': text, 'ignore_ungraphlike_errors': ignore},
                                  'returned %d errors but the minimum over all sets of graphlike errors is %s' % (len(got_syms), bm),
                                  bm, len(got_syms))
        # ---------- hypergraph search, untruncated
        fulls = list(dict.fromkeys(full for p, full, comps in errs if full and p != 0))
        bmh = brute_min(fulls)
        try:
            out = svh.request('search', ['hyper', 1000, 1000, 0], text)
        except core.Crash as e:
            rep.violation('find_undetectable_logical_error', 'crash', text, str(e) + e.stderr[-1000:])
            continue
        err = out[-1].startswith('ERR') if out else True
        rep.count(('c17-h', text), nontrivial=bmh not in (None, math.inf) and bmh >= 2)
        if bmh is not None:
            if err:
                if bmh != math.inf:
                    rep.violation('find_undetectable_logical_error', 'wrong-result', text,
                                  'untruncated search failed (%s) although an undetectable logical error of %d errors exists' % (out[-1][:120], bmh))
            else:
                res = parse_result(out[1:])
                got_syms = [full for p, full, comps in res]
                if not all(s in set(fulls) for s in got_syms) or not is_undetectable_logical(got_syms):
                    rep.violation('find_undetectable_logical_error', 'wrong-result', text,
                                  'returned set is not an undetectable logical error made of the model\'s errors', None, [sorted(s) for s in got_syms])
                elif bmh == math.inf or len(got_syms) != bmh:
                    rep.violation('find_undetectable_logical_error', 'wrong-result', text,
                                  'untruncated search returned %d errors but the minimum is %s' % (len(got_syms), bmh), bmh, len(got_syms))
        # truncated searches: any result must still be valid
        if rng.random() < 0.3:
            a, b, c = rng.choice([1, 2, 3]), rng.choice([1, 2, 3]), rng.random() < 0.5
            out = svh.request('search', ['hyper', a, b, int(c)], text)
            if out and not out[-1].startswith('ERR'):
                got_syms = [full for p, full, comps in parse_result(out[1:])]
                if not all(s in set(fulls) for s in got_syms) or not is_undetectable_logical(got_syms):
                    rep.violation('find_undetectable_logical_error', 'wrong-result', {'dem': text, 'truncation': [a, b, c]},
                                  'truncated search returned something that is not an undetectable logical error of the model')
        # ---------- MaxSAT problems
        if len(errs) <= 6 and rng.random() < 0.5:
            wcnf_check(rep, svh, rng, text, errs)
    rep.sample({'dem': text})
    truncated_searches(rep, svh, rng, 800 if quick else 20000)
    svh.close()
    rep.cov['rule'] = ('T: hyperedge-rich models (4-7 detectors, errors of degree 1-4) under truncated hypergraph searches (size limit 2-5, '
                       'degree limit 2-5, both settings of the symptom-increase flag): any returned set must be made of model errors, cancel all '
                       'detection events and flip an observable. ' + 'random small models (<= 11 errors, 2-5 detectors, boundary edges, parallel edges with different observables, '
                       'cancelling duplicate targets, separators, zero-probability errors, 70 observables, repeat/shift): graphlike and '
                       'hypergraph searches vs an exhaustive minimum; truncated searches for validity; WCNF optimum by exhaustive search. '
                       'Non-trivial = a logical error exists and the minimum is >= 2.')


def truncated_searches(rep, svh, rng, count):
    """truncation may make the search fail or return a longer error, never an invalid one: detours around forbidden detection-event
    sets (the search revisits helper errors) are the interesting paths"""
    for _ in range(count):
        nd = rng.choice([4, 5, 6, 7])
        lines = []
        for _ in range(rng.randint(3, 9)):
            k = rng.choice([1, 2, 2, 3, 3, 3, 4])
            ds = rng.sample(range(nd), min(k, nd))
            ts = ['D%d' % d for d in ds]
            if rng.random() < 0.3:
                ts.append('L%d' % rng.randrange(2))
            lines.append('error(%r) %s' % (rng.choice([0.01, 0.1, 0.25]), ' '.join(ts)))
        if rng.random() < 0.15:
            k = rng.randrange(len(lines))
            lines = lines[:k] + ['repeat 2 {'] + ['    ' + l for l in lines[k:]] + ['    shift_detectors %d' % rng.choice([0, 1]), '}']
        text = '\n'.join(lines)
        errs = flat_errors_with_components(text)
        fulls = set(full for p, full, comps in errs if p > 0)
        for _ in range(4):
            a, b, c = rng.choice([2, 3, 3, 4, 5]), rng.choice([2, 3, 4, 4, 5]), rng.random() < 0.5
            try:
                out = svh.request('search', ['hyper', a, b, int(c)], text)
            except core.Crash as e:
                rep.violation('find_undetectable_logical_error', 'crash', {'dem': text, 'truncation': [a, b, c]}, str(e) + e.stderr[-800:])
                continue
            ok = bool(out) and not out[-1].startswith('ERR')
            rep.count(('c17-t', text, a, b, c), nontrivial=ok)
            if not ok:
                continue
            got_syms = [full for p, full, comps in parse_result(out[1:])]
            if not all(s in fulls for s in got_syms) or not is_undetectable_logical(got_syms):
                rep.violation('find_undetectable_logical_error', 'wrong-result', {'dem': text, 'truncation': [a, b, c]},
                              'truncated search returned something that is not an undetectable logical error of the model',
                              None, [sorted(x) for x in got_syms])


def wcnf_check(rep, svh, rng, text, errs):
    for weighted in (0, 1):
        q = rng.choice([1, 10, 100]) if weighted else 0
        try:
            out = svh.request('search', ['wcnf', weighted, q], text)
        except core.Crash as e:
            rep.violation('sat_problem_as_wcnf_string', 'crash', text, str(e) + e.stderr[-800:])
            continue
        if out and out[-1].startswith('ERR'):
            continue
        lines = [l for l in out[1:] if l.strip()]
        header = [l for l in lines if l.startswith('p ')]
        if not header:
            rep.violation('sat_problem_as_wcnf_string', 'wrong-result', text, 'no problem line in the WCNF output')
            continue
        h = header[0].split()
        nvars, top = int(h[2]), int(h[4])
        hard, soft = [], []
        bad_lit = None
        for l in lines:
            if l.startswith('p ') or l.startswith('c'):
                continue
            t = [int(x) for x in l.split()]
            w, lits = t[0], t[1:-1]
            for x in lits:
                if abs(x) > nvars or x == 0:
                    bad_lit = x
            (hard if w >= top else soft).append((w, lits))
        rep.count(('c17-wcnf', text, weighted, q), nontrivial=True)
        if bad_lit is not None:
            rep.violation('sat_problem_as_wcnf_string', 'wrong-result', text,
                          'the WCNF file uses literal %d outside its declared variable range 1..%d' % (bad_lit, nvars))
            continue
        if nvars > 16:
            continue
        # exhaustive optimum
        best = None
        for bits in range(1 << nvars):
            ok = True
            for w, lits in hard:
                if not any((bits >> (abs(x) - 1)) & 1 == (1 if x > 0 else 0) for x in lits):
                    ok = False
                    break
            if not ok:
                continue
            cost = sum(w for w, lits in soft if not any((bits >> (abs(x) - 1)) & 1 == (1 if x > 0 else 0) for x in lits))
            if best is None or cost < best:
                best = cost
        fulls = [full for p, full, comps in errs]
        if not weighted:
            # each error instruction is a separate variable: minimum number of error instructions
            n = len(fulls)
            bm = math.inf
            for k in range(1, n + 1):
                if any(is_undetectable_logical([fulls[i] for i in combo]) for combo in itertools.combinations(range(n), k)):
                    bm = k
                    break
            exp = None if bm == math.inf else bm
            if best != exp:
                rep.violation('shortest_error_sat_problem', 'wrong-result', text,
                              'optimum of the generated MaxSAT problem differs from the minimum number of errors', exp, best)


def replay(path):
    r = json.load(open(path))
    print(json.dumps(r, indent=1))
    return 0
