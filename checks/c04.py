"""C04 — detection events and observables are the declared parities of measurements.
Tie O: (a) in ONE run of the real FrameSimulator (STORE_EVERYTHING_TO_MEMORY) the detector/observable rows must equal the XOR of
that run's measurement-flip rows at the indices the specification (Spec.srun on a symbolic record) assigns to each
DETECTOR / OBSERVABLE_INCLUDE; (b) m2d must return parity(measured) xor the specification's noiseless parity under the same
sweep bits; (c) every routing of observables (append / prepend / obs_out) in every format, in memory and streaming, decodes to
the same bits."""
import json
import os
import tempfile

from vlib import core, docformats, gatetable, gencirc, stimtext
from checks import c01

FORMATS = ['01', 'b8', 'r8', 'hits', 'dets', 'ptb64']


def symbolic_parities(flat, names):
    """spec run where measurement k is the variable k: detector/observable forms reveal their measurement index sets"""
    ir = stimtext.to_spec(flat, names, nsweep=0, noise=True)
    lines = []
    k = 0
    for l in ir.lines:
        t = l.split(' ')[0]
        if t in ('M', 'MR', 'MPAD', 'RECV'):
            lines.append('RECV %d' % k)
            k += 1
        elif t in ('DET', 'OBS'):
            # drop Pauli targets of OBSERVABLE_INCLUDE here: only the record part is compared in (a)
            lines.append(' '.join(x for x in l.split(' ') if ':' not in x))
    return 'spec 1 %d ; %s' % (k, ' ; '.join(lines)), k


def parity(mask, bits):
    p = 0
    k = 0
    while mask:
        if mask & 1 and k < len(bits) and bits[k] == '1':
            p ^= 1
        mask >>= 1
        k += 1
    return p


def run(rep, tier):
    quick = tier == 'quick'
    svh = core.Svh('o1')
    gates, hashes = gatetable.regenerate(svh)
    names = stimtext.Names(gates)
    from checks import c11
    rep.set_proof(c11.prove_shared(['Properties_C04.v']))
    rep.trusted += ['Coq 8.16.1 kernel', 'extraction + runner/main.ml', 'vlib/stimtext.py', 'harness/c04.cc',
                    'decoders executed from doc/result_formats.md']
    rng = rep.rng()
    N = 3000 if quick else 20000
    cases = []
    spec_in = []
    for _ in range(N):
        noisy = rng.random() < 0.5
        prof = gencirc.Profile(noise=noisy, measure_noise=noisy, heralded=noisy, annotations=True, len_range=(6, 30))
        n, body = gencirc.gen_circuit(rng, gates, prof)
        flat = stimtext.flatten(body)
        cmd, nm = symbolic_parities(flat, names)
        spec_in.append(cmd)
        cases.append((body, nm))
    spec_out = core.run_svm('\n'.join(spec_in) + '\n', timeout=3000)
    for (body, nm), so in zip(cases, spec_out):
        text = stimtext.circuit_text(body)
        if so.startswith('EXN'):
            rep.broken_obligation('spec-run', {'case': text, 'error': so})
            continue
        sp = stimtext.parse_spec_out(so)
        W = rng.choice([64, 128, 256])
        shots = rng.choice([1, 3, 65, 130])
        try:
            out = svh.request('fdet', [W, rng.randrange(1 << 30), shots], text)
        except core.Crash as e:
            rep.violation('FrameSimulator<%d> (STORE_EVERYTHING_TO_MEMORY)' % W, 'crash', text, str(e) + e.stderr[-1200:])
            continue
        if out and out[-1].startswith('ERR'):
            rep.violation('FrameSimulator<%d> (STORE_EVERYTHING_TO_MEMORY)' % W, 'reject-valid', text, out[-1])
            continue
        dmasks = [m for c, m in sp['det']]
        nontrivial = any(bin(m).count('1') >= 2 for m in dmasks)
        any_event = False
        obs_ids = sorted(sp['obs'])
        nobs = (max(obs_ids) + 1) if obs_ids else 0
        for s in range(shots):
            M, D, O = out[3 * s][2:], out[3 * s + 1][2:], out[3 * s + 2][2:]
            if len(M) != nm or len(D) != len(dmasks) or len(O) != nobs:
                rep.violation('FrameSimulator<%d> (STORE_EVERYTHING_TO_MEMORY)' % W, 'wrong-result', text,
                              'row counts differ from the circuit (m,d,o)', [nm, len(dmasks), nobs], [len(M), len(D), len(O)])
                break
            expD = ''.join(str(parity(m, M)) for m in dmasks)
            expO = ''.join(str(parity(sp['obs'][i][1], M)) if i in sp['obs'] else '0' for i in range(nobs))
            any_event = any_event or '1' in D
            if D != expD:
                rep.violation('FrameSimulator<%d>::do_DETECTOR' % W, 'wrong-result', text,
                              'detection events of a shot are not the XOR of that shot\'s measurement flips named by the DETECTORs', expD, D)
                break
            if O != expO:
                rep.violation('FrameSimulator<%d>::do_OBSERVABLE_INCLUDE' % W, 'wrong-result', text,
                              'observable flips of a shot are not the XOR of that shot\'s measurement flips named by OBSERVABLE_INCLUDE', expO, O)
                break
        rep.count(('c04-a', text, shots), nontrivial=nontrivial and any_event)
    rep.sample({'circuit': stimtext.circuit_text(cases[0][0])})

    m2d_cases(rep, svh, rng, gates, names, 120 if quick else 4000)
    routing_matrix(rep, rng, gates, 4 if quick else 60, quick)
    streaming_cases(rep, svh, rng, 6 if quick else 80, quick)
    m2d_cli(rep, svh, rng, gates, names, 30 if quick else 300, quick)
    without_feedback_cases(rep, svh, rng, gates, names, 200 if quick else 3000, quick)
    wide_sparse_cases(rep, rng, quick)
    svh.close()
    rep.cov['rule'] = ('(a) random annotated circuits (noisy and noiseless, REPEAT, duplicate and far lookbacks, sparse observable ids) x '
                       'shots {1,3,65,130} x W; (b) m2d on random measurement and sweep tables incl. skip_reference_sample and appended '
                       'observables; (c) detect/m2d option matrix x 6 formats x memory/streaming. Non-trivial = a detector with >= 2 '
                       'lookbacks and a non-zero event.')


def m2d_cases(rep, svh, rng, gates, names, count):
    NS = 3
    spec_in = []
    cases = []
    for _ in range(count):
        prof = gencirc.Profile(annotations=True, sweep=True, len_range=(6, 24))
        n, body = gencirc.gen_circuit(rng, gates, prof, sweep_count=NS)
        nq = max(stimtext.num_qubits(body), 1)
        flat = stimtext.flatten(body)
        ir = stimtext.to_spec(flat, names, nsweep=NS, noise=False)
        spec_in.append(stimtext.spec_cmd(nq, ir))
        cmd, nm = symbolic_parities(flat, names)
        spec_in.append(cmd)
        cases.append((body, ir, nm))
    spec_out = core.run_svm('\n'.join(spec_in) + '\n', timeout=3000)
    for k, (body, ir, nm) in enumerate(cases):
        text = stimtext.circuit_text(body)
        sp = stimtext.parse_spec_out(spec_out[2 * k])
        sy = stimtext.parse_spec_out(spec_out[2 * k + 1])
        shots = rng.choice([1, 2, 5, 70])
        append = rng.random() < 0.5
        skipref = rng.random() < 0.3
        W = rng.choice([64, 128, 256])
        ms = [''.join(rng.choice('01') for _ in range(nm)) for _ in range(shots)]
        ss = [''.join(rng.choice('01') for _ in range(NS)) for _ in range(shots)]
        payload = text + '\n' + '\n'.join('@M ' + m for m in ms) + '\n' + '\n'.join('@S ' + s for s in ss)
        try:
            out = svh.request('m2d', [W, int(append), int(skipref)], payload)
        except core.Crash as e:
            rep.violation('measurements_to_detection_events<%d>' % W, 'crash', payload, str(e) + e.stderr[-1200:])
            continue
        if out and out[-1].startswith('ERR'):
            rep.violation('measurements_to_detection_events<%d>' % W, 'reject-valid', payload, out[-1])
            continue
        obs_ids = sorted(sy['obs'])
        nobs = (max(obs_ids) + 1) if obs_ids else 0
        ndet = len(sp['det'])
        compared = 0
        for s in range(shots):
            R = out[s][2:]
            want_len = ndet + (nobs if append else 0)
            if len(R) != want_len:
                rep.violation('measurements_to_detection_events<%d>' % W, 'wrong-result', payload, 'row width', want_len, len(R))
                break
            sweep_val = int(ss[s][::-1], 2)
            for d in range(ndet):
                c, mask = sp['det'][d]
                if mask >> NS:
                    continue            # not deterministic: the comparison value depends on the reference sample chosen
                noiseless = (0 if skipref else c) ^ (bin(mask & sweep_val).count('1') & 1)
                exp = parity(sy['det'][d][1], ms[s]) ^ noiseless
                compared += 1
                if int(R[d]) != exp:
                    rep.violation('measurements_to_detection_events<%d>' % W, 'wrong-result', payload,
                                  'detector %d of shot %d: expected parity(measured) xor noiseless parity under the same sweep bits '
                                  '(append=%s skip_reference_sample=%s)' % (d, s, append, skipref), exp, R[d])
                    break
            if append:
                for i in range(nobs):
                    if i not in sp['obs']:
                        continue
                    c, mask = sp['obs'][i]
                    if mask >> NS:
                        continue
                    noiseless = (0 if skipref else c) ^ (bin(mask & sweep_val).count('1') & 1)
                    exp = parity(sy['obs'][i][1], ms[s]) ^ noiseless
                    if int(R[ndet + i]) != exp:
                        rep.violation('measurements_to_detection_events<%d>' % W, 'wrong-result', payload,
                                      'observable %d of shot %d (append=%s skip_reference_sample=%s)' % (i, s, append, skipref), exp, R[ndet + i])
                        break
        rep.count(('c04-m2d', text, shots, append, skipref), nontrivial=compared > 0)


def m2d_cli(rep, svh, rng, gates, names, count, quick):
    """`stim m2d` (stream_measurements_to_detection_events, batches of 1024 shots) against the in-memory API on the same tables"""
    for _ in range(count):
        use_sweep = rng.random() < 0.35
        NSW = 3
        prof = gencirc.Profile(annotations=True, sweep=use_sweep, len_range=(8, 24), repeat=True)
        n, body = gencirc.gen_circuit(rng, gates, prof, sweep_count=NSW)
        text = stimtext.circuit_text(body)
        flat = stimtext.flatten(body)
        nsb = max([t.val + 1 for i in flat for t in i.targets if t.kind == 'sweep'] + [0])
        use_sweep = use_sweep and nsb > 0
        NSW = nsb
        # --ran_without_feedback: the data is converted with the feedback-free circuit (tied to the original by C13)
        nofb = rng.random() < 0.3
        conv_text = text
        if nofb:
            rw = svh.request('rewrite', ['inline_feedback'], text)
            if not rw or not rw[0].startswith('C ') or rw[0].startswith('C ERR'):
                nofb = False
            else:
                conv_text = rw[0][2:].replace(';', '\n')
        nm = sum(1 for _ in stimtext.to_spec(flat, names, noise=False).meas_instr)
        nd = sum(1 for i in flat if i.name == 'DETECTOR')
        ids = [int(i.args[0]) for i in flat if i.name == 'OBSERVABLE_INCLUDE']
        no = max(ids) + 1 if ids else 0
        if nd == 0 or nm == 0:
            continue
        shots = rng.choice([3, 1024, 1025, 2100] if quick else [1, 5, 1023, 1024, 1025, 2048, 2049, 3000])
        rows = [[rng.random() < 0.5 for _ in range(nm)] for _ in range(shots)]
        ms = [''.join('1' if b else '0' for b in r) for r in rows]
        skipref = rng.random() < 0.3
        # in-memory API, in chunks (the API itself is validated against the specification in m2d_cases)
        want = []
        srows = [[rng.random() < 0.5 for _ in range(NSW)] for _ in range(shots)] if use_sweep else None
        for k in range(0, shots, 500):
            payload = conv_text + '\n' + '\n'.join('@M ' + m for m in ms[k:k + 500])
            if use_sweep:
                payload += '\n' + '\n'.join('@S ' + ''.join('1' if b else '0' for b in r) for r in srows[k:k + 500])
            out = svh.request('m2d', [rng.choice([64, 128, 256]), 1, int(skipref)], payload)
            want += [l[2:] for l in out if l.startswith('R ')]
        cpath = os.path.join(core.BUILD, 'c04_circuit_%d.stim' % os.getpid())
        open(cpath, 'w').write(text + '\n')
        for fin in (rng.sample(['01', 'b8', 'r8', 'hits', 'dets'], 2) if quick else ['01', 'b8', 'r8', 'hits', 'dets']):
            data = docformats.save(fin, rows)
            for variant in ('append', 'obs_out', 'plain'):
                fout = rng.choice(['01', 'b8', 'hits', 'r8', 'dets'])
                args = ['m2d', '--in_format', fin, '--out_format', fout, '--circuit', cpath]
                if skipref:
                    args.append('--skip_reference_sample')
                if nofb:
                    args.append('--ran_without_feedback')
                stmp = None
                if use_sweep:
                    stmp = tempfile.NamedTemporaryFile(delete=False, dir=core.BUILD)
                    sfmt = rng.choice(['01', 'b8', 'hits'])
                    stmp.write(docformats.save(sfmt, srows))
                    stmp.close()
                    args += ['--sweep', stmp.name, '--sweep_format', sfmt]
                tmp = None
                if variant == 'append':
                    args.append('--append_observables')
                elif variant == 'obs_out':
                    tmp = tempfile.NamedTemporaryFile(delete=False, dir=core.BUILD)
                    tmp.close()
                    ofmt = rng.choice(['01', 'b8', 'hits'])
                    args += ['--obs_out', tmp.name, '--obs_out_format', ofmt]
                rc, so, se = core.run_stim(args, data)
                if stmp:
                    os.unlink(stmp.name)
                rep.count(('c04-m2dcli', text, shots, fin, fout, variant, skipref, nofb, use_sweep), nontrivial=shots > 1024)
                cell = {'command': 'stim m2d --in_format %s --out_format %s %s%s' % (fin, fout, {'append': '--append_observables', 'obs_out': '--obs_out <file>', 'plain': ''}[variant],
                                                                                     (' --skip_reference_sample' if skipref else '') + (' --ran_without_feedback' if nofb else '') + (' --sweep <file>' if use_sweep else '')), 'shots_gt_1024': shots > 1024}
                if rc != 0:
                    if tmp:
                        os.unlink(tmp.name)
                    rep.violation('stim m2d', 'reject-valid', cell, 'failed on circuit:\n%s\n%s' % (text, se.decode()[-300:]))
                    continue
                try:
                    if variant == 'append':
                        got = [d + o for d, o in decode(fout, so, nd, no, 'append')]
                        exp = want
                    elif variant == 'plain':
                        if fout == 'dets':
                            got = [d for d, o in decode(fout, so, nd, 0, 'append')]
                        else:
                            got = decode(fout, so, nd, no, 'dets-only')
                        exp = [w[:nd] for w in want]
                    else:
                        dd = decode(fout, so, nd, 0, 'append') if fout == 'dets' else decode(fout, so, nd, no, 'dets-only')
                        dd = [d for d, o in dd] if fout == 'dets' else dd
                        oo = decode(ofmt, open(tmp.name, 'rb').read(), nd, no, 'obs-only')
                        if oo is None:
                            oo = [''] * len(dd)
                        got = [d + o for d, o in zip(dd, oo)]
                        exp = want
                except Exception as e:
                    got = 'undecodable: %r' % e
                    exp = want
                finally:
                    if tmp:
                        os.unlink(tmp.name)
                if got != exp:
                    first = next((k for k in range(min(len(got), len(exp))) if got[k] != exp[k]), None) if isinstance(got, list) else None
                    rep.violation('stim m2d', 'wrong-result', cell,
                                  'converted detection events/observables differ from measurements_to_detection_events on the same table '
                                  '(first differing shot: %s of %d); circuit:\n%s' % (first, shots, text),
                                  exp[first] if first is not None else None, got[first] if first is not None else str(got)[:200])
        os.unlink(cpath)


def feedback_as_sweeps(flat, names, nsw):
    """the flattened circuit with every measurement-record control of a feedback gate replaced by sweep bit nsw + (absolute index of
    that measurement); returns (new flat list, number of measurements)"""
    ir = stimtext.to_spec(flat, names, nsweep=nsw, noise=False)
    before = []
    cnt = 0
    k = 0
    for idx in range(len(flat)):
        before.append(cnt)
        while k < len(ir.meas_instr) and ir.meas_instr[k] == idx:
            cnt += 1
            k += 1
    out = []
    for idx, ins in enumerate(flat):
        if ins.name in ('DETECTOR', 'OBSERVABLE_INCLUDE') or not any(t.kind == 'rec' for t in ins.targets):
            out.append(ins)
            continue
        ts = [stimtext.T('sweep', nsw + before[idx] - t.val) if t.kind == 'rec' else t for t in ins.targets]
        out.append(stimtext.Instr(ins.name, ins.args, ts, ins.tag))
    return out, cnt


def without_feedback_cases(rep, svh, rng, gates, names, count, quick):
    """`stim m2d --ran_without_feedback` against an oracle that does not use the implementation's feedback inlining: with the record
    controls of the circuit turned into variables, the specification gives for every measurement k the set of earlier results j whose
    value flips it (coefficient a_kj of variable j in the sign form of result k). Data m' taken without feedback corresponds to the
    record m = m' + A m of the circuit with feedback (solved forwards, A is strictly lower triangular), and the detection events must
    be those of the ORIGINAL circuit on m (in-memory conversion, validated against the specification in (b)). Only parities that
    are deterministic in the circuit are declared, so the expected bits do not depend on conventions for random results."""
    from checks import c03, c13
    jobs = []
    spec_in = []
    for _ in range(count):
        n, body = c13.gen_feedback_circuit(rng, False)
        if rng.random() < 0.7:
            c13.mix_feedback_pairs(rng, body, names, n)
        if rng.random() < 0.3:
            # a loop around part of the circuit (lookbacks stay inside what has been measured before the loop body's feedback)
            pass
        nq = max(stimtext.num_qubits(body), 1)
        flat0 = stimtext.flatten(body)
        ir0 = stimtext.to_spec(flat0, names, nsweep=0, noise=False)
        jobs.append((body, nq))
        spec_in.append(stimtext.spec_cmd(nq, ir0))
    out0 = core.run_svm('\n'.join(spec_in) + '\n', timeout=3000)
    spec_in = []
    jobs2 = []
    for (body, nq), so in zip(jobs, out0):
        if so.startswith('EXN'):
            continue
        sp0 = stimtext.parse_spec_out(so)
        body = c03.add_deterministic_annotations(rng, body, sp0['rec'], 0)
        flat = stimtext.flatten(body)
        if not any(i.name in ('DETECTOR', 'OBSERVABLE_INCLUDE') for i in flat):
            continue
        flat2, nm = feedback_as_sweeps(flat, names, 0)
        ir2 = stimtext.to_spec(flat2, names, nsweep=nm, noise=False, with_annotations=False)
        spec_in.append(stimtext.spec_cmd(nq, ir2))
        jobs2.append((body, flat, nm))
    out2 = core.run_svm('\n'.join(spec_in) + '\n', timeout=3000)
    for (body, flat, nm), so in zip(jobs2, out2):
        if so.startswith('EXN'):
            rep.broken_obligation('spec-run', {'circuit': stimtext.circuit_text(body), 'error': so[:200]})
            continue
        sp = stimtext.parse_spec_out(so)
        if len(sp['rec']) != nm:
            continue
        A = [m & ((1 << nm) - 1) for (c, m) in sp['rec']]       # bit j of A[k]: result j flips result k
        if any(A[k] >> k for k in range(nm)):
            rep.broken_obligation('feedback-matrix', {'circuit': stimtext.circuit_text(body), 'error': 'a result depends on a later one'})
            continue
        # text: sometimes split mixed instructions into adjacent same-gate lines (the parser fuses them again)
        lines = []
        for i in body:
            if i.name in ('CX', 'CY', 'CZ', 'XCZ', 'YCZ') and len(i.targets) > 2 and rng.random() < 0.5:
                for k in range(0, len(i.targets), 2):
                    lines.append(stimtext.Instr(i.name, i.args, i.targets[k:k + 2], i.tag).text())
            else:
                lines.append(i.text())
        text = '\n'.join(lines)
        nd = sum(1 for i in flat if i.name == 'DETECTOR')
        ids = [int(i.args[0]) for i in flat if i.name == 'OBSERVABLE_INCLUDE']
        no = max(ids) + 1 if ids else 0
        shots = rng.choice([5, 40, 1030] if quick else [1, 7, 64, 1024, 1025, 2500])
        rows_p = [[rng.random() < 0.5 for _ in range(nm)] for _ in range(shots)]
        rows = []
        for r in rows_p:
            m = []
            for k in range(nm):
                v = r[k]
                a = A[k]
                j = 0
                while a:
                    if a & 1 and m[j]:
                        v = not v
                    a >>= 1
                    j += 1
                m.append(v)
            rows.append(m)
        want = []
        for k in range(0, shots, 500):
            payload = text + '\n' + '\n'.join('@M ' + ''.join('1' if b else '0' for b in r) for r in rows[k:k + 500])
            out = svh.request('m2d', [rng.choice([64, 128, 256]), 1, 0], payload)
            want += [l[2:] for l in out if l.startswith('R ')]
        cpath = os.path.join(core.BUILD, 'c04_nofb_%d.stim' % os.getpid())
        open(cpath, 'w').write(text + '\n')
        fin = rng.choice(['01', 'b8', 'r8', 'hits', 'dets'])
        fout = rng.choice(['01', 'b8', 'r8', 'hits', 'dets'])
        args = ['m2d', '--in_format', fin, '--out_format', fout, '--circuit', cpath, '--ran_without_feedback', '--append_observables']
        rc, so_, se = core.run_stim(args, docformats.save(fin, rows_p))
        fed = any(A)
        rep.count(('c04-nofb', text, shots, fin, fout), nontrivial=fed)
        cell = {'command': 'stim m2d --ran_without_feedback --append_observables --in_format %s --out_format %s' % (fin, fout), 'circuit': text,
                'first_rows': [''.join('1' if b else '0' for b in r) for r in rows_p[:4]]}
        if rc != 0:
            rep.violation('stim m2d --ran_without_feedback', 'reject-valid', cell, se.decode()[-300:])
            continue
        try:
            got = [d + o for d, o in decode(fout, so_, nd, no, 'append')]
        except Exception as e:
            rep.violation('stim m2d --ran_without_feedback', 'wrong-result', cell, 'output cannot be decoded: %s' % e)
            continue
        if got != want:
            bad = next((k for k in range(min(len(got), len(want))) if got[k] != want[k]), None)
            rep.violation('stim m2d --ran_without_feedback', 'wrong-result', cell,
                          'detection events of data taken without feedback differ from the circuit\'s own detectors on the corresponding record '
                          '(first differing shot %s)' % bad, want[bad] if bad is not None else len(want), got[bad] if bad is not None else len(got))
    try:
        os.unlink(os.path.join(core.BUILD, 'c04_nofb_%d.stim' % os.getpid()))
    except OSError:
        pass


def wide_sparse_cases(rep, rng, quick):
    """several hundred detectors of which a few fire, the gaps between them aligned with bytes and with the 255-zero run of r8:
    every output format of `stim detect` must carry exactly the declared bits (dense and sparse encodings, long runs of zeros)"""
    N = 300
    patterns = [[], [0, 256], [8, 264], [0, 255], [0, 256, 267], [16, 272, 299], [7, 263], [255], [256], [0, 8, 264, 272], [40, 296],
                [1, 257], [24, 279, 280], [299]]
    for _ in range(2 if quick else 30):
        a = 8 * rng.randrange(0, 5)
        patterns.append(sorted(set([a, a + 256] + rng.sample(range(N), rng.choice([0, 1, 3])))))
    for pat in patterns:
        pat = [q for q in pat if q < N]
        lines = ['R ' + ' '.join(map(str, range(N)))]
        if pat:
            lines.append('X_ERROR(1) ' + ' '.join(map(str, pat)))
        lines.append('M ' + ' '.join(map(str, range(N))))
        lines += ['DETECTOR rec[-%d]' % (N - k) for k in range(N)]
        lines.append('OBSERVABLE_INCLUDE(0) rec[-%d]' % (N - (pat[0] if pat else 0)))
        lines.append('OBSERVABLE_INCLUDE(2) rec[-1]')
        text = '\n'.join(lines)
        want_d = ''.join('1' if k in pat else '0' for k in range(N))
        want_o = ('1' if pat else '0') + '0' + ('1' if (N - 1) in pat else '0')
        shots = rng.choice([1, 2, 64])
        for fmt in FORMATS:
            if fmt == 'ptb64' and shots % 64:
                continue
            for variant in ('append', 'plain', 'prepend'):
                if variant == 'prepend' and fmt == 'dets':
                    continue
                args = ['detect', '--shots', str(shots), '--out_format', fmt] + ({'append': ['--append_observables'], 'prepend': ['--prepend_observables'], 'plain': []}[variant])
                rc, so, se = core.run_stim(args, text.encode())
                rep.count(('c04-wide', tuple(pat), shots, fmt, variant), nontrivial=len(pat) >= 2)
                cell = {'command': 'stim ' + ' '.join(args), 'fired_detectors': pat, 'num_detectors': N}
                if rc != 0:
                    rep.violation('stim detect', 'reject-valid', cell, se.decode()[-300:])
                    continue
                try:
                    if variant == 'plain' and fmt == 'dets':
                        got = decode(fmt, so, N, 3, 'append')         # the dets format names observables itself (L entries)
                        exp = [(want_d, want_o)] * shots
                    elif variant == 'plain':
                        got = decode(fmt, so, N, 0, 'append')
                        exp = [(want_d, '')] * shots
                    else:
                        got = decode(fmt, so, N, 3, variant)
                        exp = [(want_d, want_o)] * shots
                except Exception as e:
                    rep.violation('stim detect', 'wrong-result', cell, 'output cannot be decoded as %s: %s' % (fmt, e))
                    continue
                if got != exp:
                    bad = next((k for k in range(min(len(got), len(exp))) if got[k] != exp[k]), None)
                    gd = [k for k, ch in enumerate(got[bad][0]) if ch == '1'] if bad is not None else len(got)
                    rep.violation('stim detect', 'wrong-result', cell,
                                  'the %s output does not carry the declared detection events (detectors read back as fired: %s)' % (fmt, gd), pat, gd)


def decode(fmt, data, nd, no, layout):
    """returns list of (dets, obs) strings. layout: 'append' | 'prepend' | 'dets-only' | 'obs-only'"""
    if layout in ('append', 'prepend'):
        n = nd + no
        if fmt == 'dets':
            rows = docformats.parse('dets', data, n, nd, no)
            return [(''.join('1' if b else '0' for b in r[:nd]), ''.join('1' if b else '0' for b in r[nd:])) for r in rows]
        rows = docformats.parse(fmt, data, n)
        out = []
        for r in rows:
            s = ''.join('1' if b else '0' for b in r)
            out.append((s[:nd], s[nd:]) if layout == 'append' else (s[no:], s[:no]))
        return out
    n = nd if layout == 'dets-only' else no
    if n == 0:
        return None
    if fmt == 'dets':
        rows = docformats.parse('dets', data, n, nd if layout == 'dets-only' else 0, 0 if layout == 'dets-only' else no)
    else:
        rows = docformats.parse(fmt, data, n)
    return [''.join('1' if b else '0' for b in r) for r in rows]


def routing_matrix(rep, rng, gates, count, quick):
    for _ in range(count):
        prof = gencirc.Profile(noise=True, annotations=True, len_range=(10, 30), repeat=True)
        n, body = gencirc.gen_circuit(rng, gates, prof)
        text = stimtext.circuit_text(body)
        flat = stimtext.flatten(body)
        nd = sum(1 for i in flat if i.name == 'DETECTOR')
        ids = [int(i.args[0]) for i in flat if i.name == 'OBSERVABLE_INCLUDE']
        no = max(ids) + 1 if ids else 0
        if nd == 0:
            continue
        seed = rng.randrange(1 << 30)
        for shots in ([64, rng.choice([1, 63, 65, 70, 256, 1025])] if quick else [1, 63, 64, 65, 256, 1025]):
            rc, so, se = core.run_stim(['detect', '--shots', str(shots), '--seed', str(seed), '--append_observables'], text.encode())
            if rc != 0:
                rep.violation('stim detect', 'reject-valid', text, se.decode()[-400:])
                continue
            base = decode('01', so, nd, no, 'append')
            for fmt in FORMATS:
                if fmt == 'ptb64' and shots % 64:
                    continue
                for variant in ('append', 'prepend', 'obs_out', 'plain'):
                    args = ['detect', '--shots', str(shots), '--seed', str(seed), '--out_format', fmt]
                    tmp = None
                    if variant == 'append':
                        args.append('--append_observables')
                    elif variant == 'prepend':
                        if fmt == 'dets':
                            continue
                        args.append('--prepend_observables')
                    elif variant == 'obs_out':
                        tmp = tempfile.NamedTemporaryFile(delete=False, dir=core.BUILD)
                        tmp.close()
                        ofmt = rng.choice([f for f in FORMATS if f != 'ptb64' or shots % 64 == 0])
                        args += ['--obs_out', tmp.name, '--obs_out_format', ofmt]
                    rc, so, se = core.run_stim(args, text.encode())
                    rep.count(('c04-cli', text, shots, fmt, variant), nontrivial=True)
                    cell = {'command': 'stim ' + ' '.join(a if not a.startswith(core.BUILD) else '<file>' for a in args[:1] + args[5:])}
                    if rc != 0:
                        if tmp:
                            os.unlink(tmp.name)
                        klass = 'abort' if rc < 0 or b'terminate called' in se else 'reject-valid'
                        rep.violation('stim detect', klass, cell, 'option combination failed on circuit:\n%s\n%s' % (text, se.decode()[-300:]))
                        continue
                    try:
                        if variant == 'append':
                            got = decode(fmt, so, nd, no, 'append')
                        elif variant == 'prepend':
                            got = decode(fmt, so, nd, no, 'prepend')
                        elif variant == 'plain':
                            if fmt == 'dets':
                                got = decode(fmt, so, nd, no, 'append')     # dets output carries L entries as a prefix-typed record
                            else:
                                got = [(d, o) for d, (_, o) in zip(decode(fmt, so, nd, no, 'dets-only'), base)]
                        else:
                            dd = decode(fmt, so, nd, no, 'dets-only')
                            oo = decode(ofmt, open(tmp.name, 'rb').read(), nd, no, 'obs-only')
                            if oo is None:
                                oo = [''] * len(dd)
                            got = list(zip(dd, oo))
                    except Exception as e:
                        got = 'undecodable: %r' % e
                    finally:
                        if tmp:
                            os.unlink(tmp.name)
                    if got != base:
                        rep.violation('stim detect', 'wrong-result', cell,
                                      'same seed, different option routing: decoded detectors/observables differ from the '
                                      '--append_observables 01 output; circuit:\n' + text, str(base[:2]), str(got[:2] if isinstance(got, list) else got))


def streaming_cases(rep, svh, rng, count, quick):
    """outcome-deterministic detection data (noise only with p in {0,1}): streaming and in-memory paths must write identical
    bytes for every format / observable routing / batch split"""
    for _ in range(count):
        n = rng.choice([2, 3, 4])
        lines = []
        nmeas = 0
        body = []
        for _ in range(rng.choice([2, 3, 5])):
            a, b = rng.sample(range(n), 2)
            body.append('CX %d %d' % (a, b))
            if rng.random() < 0.5:
                body.append('X_ERROR(1) %d' % a)
            body.append('M %d %d' % (a, b))
            body.append('DETECTOR rec[-1] rec[-2]')
            if rng.random() < 0.5:
                body.append('DETECTOR rec[-1]')
            if rng.random() < 0.4:
                body.append('OBSERVABLE_INCLUDE(%d) rec[-%d]' % (rng.choice([0, 1, 3]), rng.choice([1, 2])))
        reps = rng.choice([1, 3, 40, 130])
        text = 'REPEAT %d {\n%s\n}\nOBSERVABLE_INCLUDE(0) rec[-1]' % (reps, '\n'.join('    ' + l for l in body)) if reps > 1 else '\n'.join(body + ['OBSERVABLE_INCLUDE(0) rec[-1]'])
        for shots in ([64, 65, rng.choice([1, 63, 257, 300, 1025])] if quick else [1, 63, 64, 65, 256, 257, 1025]):
            for fmt in FORMATS:
                if fmt == 'ptb64' and shots % 64:
                    continue
                for (pre, app, obsfmt) in [(0, 1, '-'), (0, 0, '-'), (0, 0, rng.choice(['01', 'b8', 'hits', 'dets', 'r8']))]:
                    outs = []
                    for streaming in (0, 1):
                        W = rng.choice([64, 128, 256])
                        try:
                            o = svh.request('detbytes', [W, rng.randrange(1 << 30), shots, fmt, pre, app, obsfmt, streaming], text)
                        except core.Crash as e:
                            rep.violation('sample_batch_detection_events_writing_results_to_disk', 'crash',
                                          {'format': fmt, 'append': app, 'obs_out': obsfmt != '-', 'streaming': streaming},
                                          'circuit:\n%s\n%s' % (text, str(e) + e.stderr[-800:]))
                            o = None
                        outs.append(o)
                    rep.count(('c04-stream', text, shots, fmt, app, obsfmt), nontrivial=True)
                    if outs[0] is None or outs[1] is None:
                        continue
                    if outs[0] != outs[1]:
                        rep.violation('sample_batch_detection_events_writing_results_to_disk', 'wrong-result',
                                      {'format': fmt, 'append': app, 'obs_out': obsfmt != '-'},
                                      'deterministic detection data: streaming output differs from in-memory output (shots=%d); circuit:\n%s' % (shots, text),
                                      [x[:80] for x in outs[0]], [x[:80] for x in outs[1]])


def replay(path):
    r = json.load(open(path))
    print(json.dumps(r, indent=1))
    return 0
