"""C02 — bulk (reference-frame) sampling yields the circuit's measurement distribution.
Tie G: frame_simulator.inl unitary routines + dispatch -> Gen_Frame.v (Properties_C02.v).
Tie O: every bulk shot must be consistent with Spec.srun (verified solver), undetermined measurements unbiased and the
records uniform on the affine space the specification computes; outcome-deterministic circuits byte-identical through
every path and format to the documentation's reference encoder."""
import json
import math

from vlib import core, docformats, gatetable, gencirc, stimtext
from checks import c01

FORMATS = ['01', 'b8', 'r8', 'hits', 'dets', 'ptb64']


def det_circuit(rng, gates, nmeas_target):
    """an outcome-deterministic noiseless circuit with roughly nmeas_target measurements (classical states only mixed
    with stabilizer checks), using REPEAT so that large counts stay small in text"""
    n = rng.choice([2, 3, 5])
    lines = []
    for q in range(n):
        if rng.random() < 0.5:
            lines.append('X %d' % q)
    body = []
    per = 0
    for _ in range(rng.choice([1, 2, 3])):
        a, b = rng.sample(range(n), 2)
        body.append('CX %d %d' % (a, b))
        body.append('M %s%d %d' % ('!' if rng.random() < 0.3 else '', a, b))
        per += 2
        if rng.random() < 0.4:
            body.append('MZZ %d %d' % (a, b))
            per += 1
        if rng.random() < 0.3:
            body.append('MR %d' % a)
            per += 1
            body.append('X %d' % a)
        if rng.random() < 0.3:
            body.append('MPP Z%d*Z%d' % (a, b))
            per += 1
        if rng.random() < 0.3:
            body.append('H %d' % a)
            body.append('MX %d' % a)
            body.append('H %d' % a)
            # H; MX; H on a Z eigenstate: MX after H measures the original Z value
            per += 1
    reps = max(1, nmeas_target // per)
    if reps > 1:
        lines.append('REPEAT %d {' % reps)
        lines += ['    ' + l for l in body]
        lines.append('}')
    else:
        lines += body
    extra = nmeas_target - reps * per
    if extra > 0:
        lines.append('M ' + ' '.join(str(rng.randrange(n)) for _ in range(extra)))
    return '\n'.join(lines), n


def run(rep, tier):
    quick = tier == 'quick'
    svh = core.Svh('o1')
    gates, hashes = gatetable.regenerate(svh)
    names = stimtext.Names(gates)
    from checks import c11
    rep.set_proof(c11.prove_shared(['Properties_C02.v']))
    rep.trusted += ['Coq 8.16.1 kernel incl. vm_compute', 'vlib translators (gate table, frame routines, dispatch)',
                    'extraction + runner/main.ml', 'vlib/stimtext.py', 'harness/c02.cc',
                    'reference encoders executed from doc/result_formats.md']
    rep.assumptions += ['RNG quality (mt19937_64) is tested statistically at 7 sigma, not proved',
                        'the frame sampler reports exactly the legal records (FrameComplete.frame_exact) for Clifford steps and '
                        'Hermitian measurements of any number; with resets and noise, surjectivity onto the specification\'s affine '
                        'space is checked per circuit (distinct-record count and uniformity)']
    rng = rep.rng()

    # ---------- A. validity of every bulk shot (noiseless and noisy circuits)
    NA = 250 if quick else 8000
    cases = []
    spec_in = []
    for k in range(NA):
        noisy = rng.random() < 0.4
        prof = gencirc.Profile(noise=noisy, measure_noise=noisy, heralded=noisy, len_range=(3, 20))
        if rng.random() < 0.1:
            prof.index_map = rng.choice([[63, 64, 65, 0, 1], [127, 128, 129, 64, 2], [255, 256, 257, 300, 1]])
            prof.len_range = (3, 10)
        n, body = gencirc.gen_circuit(rng, gates, prof)
        nq = max(stimtext.num_qubits(body), 1)
        flat = stimtext.flatten(body)
        ir = stimtext.to_spec(flat, names, nsweep=0, noise=True)
        spec_in.append(stimtext.spec_cmd(nq, ir))
        cases.append((nq, body, ir, noisy))
    spec_out = core.run_svm('\n'.join(spec_in) + '\n', timeout=3000)
    cons_in = []
    meta = []
    for (nq, body, ir, noisy), so in zip(cases, spec_out):
        text = stimtext.circuit_text(body)
        if so.startswith('EXN'):
            rep.broken_obligation('spec-run', {'case': text, 'error': so})
            continue
        sp = stimtext.parse_spec_out(so)
        W = rng.choice([64, 128, 256])
        shots = rng.choice([1, 2, 3, 7, 65, 130])
        seed = rng.randrange(1 << 30)
        try:
            out = svh.request('fsample', [W, seed, shots], text)
        except core.Crash as e:
            rep.violation('sample_batch_measurements<%d>' % W, 'crash', text, str(e) + e.stderr[-1500:])
            continue
        if out and out[-1].startswith('ERR'):
            rep.violation('sample_batch_measurements<%d>' % W, 'reject-valid', text, out[-1])
            continue
        free = c01.free_indices(sp['rec'], ir.nvars)
        rep.count(('c02-valid', text, seed, shots), nontrivial=bool(free))
        recs = [l[2:] for l in out if l.startswith('S ')]
        if len(recs) != shots:
            rep.violation('sample_batch_measurements<%d>' % W, 'wrong-result', text, 'number of shots', shots, len(recs))
            continue
        for r in recs[:6] + recs[-2:]:
            if len(r) != len(sp['rec']):
                rep.violation('sample_batch_measurements<%d>' % W, 'wrong-result', text, 'record length', len(sp['rec']), len(r))
                break
            eqs = ['%s=%s' % (c01.fmt_form(f), b) for f, b in zip(sp['rec'], r)]
            if not noisy:
                pass
            cons_in.append('consistent %d ; %s' % (sp['ncoins'], ' ; '.join(eqs)))
            meta.append((text, r, W, seed, shots))
    cons_out = core.run_svm('\n'.join(cons_in) + '\n', timeout=3000)
    for (text, r, W, seed, shots), verdict in zip(meta, cons_out):
        if verdict != '1':
            rep.violation('sample_batch_measurements<%d>' % W, 'wrong-result', text,
                          'a bulk shot is not an outcome the circuit can produce (seed %d, %d shots)' % (seed, shots), None, r)
    if meta:
        rep.sample({'circuit': meta[0][0], 'shot': meta[0][1]})

    # ---------- A2. `stim sample` with several 1024-shot batches and the reference-sample switches
    cli_batches(rep, svh, rng, gates, names, 14 if quick else 300)

    # ---------- B. unbiased and uniform on the specification's affine space (noiseless circuits)
    NB = 25 if quick else 400
    uniformity(rep, svh, rng, gates, names, NB, 4096)

    # ---------- C. outcome-deterministic circuits: every path, format, batch split, width gives the reference bytes
    NC = 6 if quick else 60
    deterministic_paths(rep, svh, rng, gates, NC, quick)
    svh.close()
    rep.cov['rule'] = ('A: random circuits (noiseless and noisy, all gates) x shots {1,2,3,7,65,130} x W: each shot consistent with '
                       'the specification; B: 4096-shot runs: each free measurement unbiased at 7 sigma, records uniform over the '
                       '2^r reachable records for r<=5; C: deterministic circuits x 6 formats x shot counts x in-memory/streaming x '
                       'reference-sample mode: bytes equal the documentation encoder. Non-trivial = has a free measurement '
                       '(A,B) / multi-batch or streaming path (C).')


def uniformity(rep, svh, rng, gates, names, count, N):
    spec_in = []
    cases = []
    for k in range(count):
        prof = gencirc.Profile(len_range=(4, 18), n_choices=[1, 2, 3, 4])
        n, body = gencirc.gen_circuit(rng, gates, prof)
        nq = max(stimtext.num_qubits(body), 1)
        ir = stimtext.to_spec(stimtext.flatten(body), names, nsweep=0, noise=False)
        spec_in.append(stimtext.spec_cmd(nq, ir))
        cases.append((nq, body))
    spec_out = core.run_svm('\n'.join(spec_in) + '\n', timeout=3000)
    for (nq, body), so in zip(cases, spec_out):
        sp = stimtext.parse_spec_out(so)
        text = stimtext.circuit_text(body)
        W = rng.choice([64, 128, 256])
        out = svh.request('fsample', [W, rng.randrange(1 << 30), N], text)
        recs = [l[2:] for l in out if l.startswith('S ')]
        free = c01.free_indices(sp['rec'], 0)
        r = len(free)
        rep.count(('c02-uniform', text), nontrivial=r > 0)
        lim = 7 * math.sqrt(N) / 2
        for k in free:
            ones = sum(1 for x in recs if x[k] == '1')
            if abs(ones - N / 2) > lim:
                rep.violation('sample_batch_measurements<%d>' % W, 'biased', text,
                              'measurement %d is not fixed by the earlier record but came out 1 in %d of %d shots' % (k, ones, N),
                              'N/2 +- %d' % lim, ones)
        distinct = {}
        for x in recs:
            distinct[x] = distinct.get(x, 0) + 1
        if len(distinct) > (1 << r):
            rep.violation('sample_batch_measurements<%d>' % W, 'wrong-result', text,
                          'more distinct records (%d) than the specification allows (2^%d)' % (len(distinct), r))
        if r <= 5:
            exp = N / (1 << r)
            sd = math.sqrt(exp * (1 - 1.0 / (1 << r))) if r else 0
            if len(distinct) < (1 << r):
                rep.violation('sample_batch_measurements<%d>' % W, 'biased', text,
                              'only %d of the 2^%d reachable records appeared in %d shots' % (len(distinct), r, N))
            for x, c in distinct.items():
                if r and abs(c - exp) > 7 * sd + 1:
                    rep.violation('sample_batch_measurements<%d>' % W, 'biased', text,
                                  'record %s appeared %d times in %d shots, expected %.0f' % (x, c, N, exp))


def cli_batches(rep, svh, rng, gates, names, count):
    """the command line sampler works in batches of 1024 shots; --skip_loop_folding changes how the reference sample is computed,
    --skip_reference_sample replaces it by zeros (then the output is the flips relative to a reference: XOR-ing a noiseless
    reference sample back must give a possible outcome)"""
    spec_in, cases = [], []
    for _ in range(count):
        noisy = rng.random() < 0.4
        prof = gencirc.Profile(noise=noisy, measure_noise=noisy, heralded=noisy, len_range=(3, 14), repeat=True)
        n, body = gencirc.gen_circuit(rng, gates, prof)
        nq = max(stimtext.num_qubits(body), 1)
        ir = stimtext.to_spec(stimtext.flatten(body), names, nsweep=0, noise=True)
        if ir.num_meas == 0:
            continue
        spec_in.append(stimtext.spec_cmd(nq, ir))
        cases.append((body, ir))
    spec_out = core.run_svm('\n'.join(spec_in) + '\n', timeout=3000) if spec_in else []
    cons_in, meta = [], []
    for (body, ir), so in zip(cases, spec_out):
        if so.startswith('EXN'):
            continue
        sp = stimtext.parse_spec_out(so)
        text = stimtext.circuit_text(body)
        shots = rng.choice([1025, 2100, 3073])
        flags = [f for f in ('--skip_reference_sample', '--skip_loop_folding') if rng.random() < 0.4]
        rc, out, err = core.run_stim(['sample', '--shots', str(shots), '--seed', str(rng.randrange(1 << 30))] + flags, text.encode())
        cell = {'circuit': text, 'command': 'stim sample --shots %d %s' % (shots, ' '.join(flags))}
        rep.count(('c02-cli', text, shots, tuple(flags)), nontrivial=True)
        if rc != 0:
            rep.violation('stim sample', 'reject-valid', cell, err.decode()[-300:])
            continue
        lines = [l for l in out.decode().split('\n')]
        if lines and lines[-1] == '':
            lines.pop()
        nm = len(sp['rec'])
        if len(lines) != shots or any(len(l) != nm for l in lines):
            rep.violation('stim sample', 'wrong-result', cell, 'expected %d lines of %d bits, got %d lines' % (shots, nm, len(lines)))
            continue
        ref = None
        if '--skip_reference_sample' in flags:
            ref = svh.request('tsample', [64, 0, 0, 'reference'], text)[0][4:]
        picks = sorted(set([0, 1, 1022, 1023, 1024, 1025, 2047, 2048, 2049, shots - 1] + [rng.randrange(shots) for _ in range(20)]))
        for k in picks:
            if k >= shots:
                continue
            r = lines[k]
            if ref is not None:
                r = ''.join('1' if (a == '1') != (b == '1') else '0' for a, b in zip(r, ref))
            eqs = ['%s=%s' % (c01.fmt_form(f), b) for f, b in zip(sp['rec'], r)]
            cons_in.append('consistent %d ; %s' % (sp['ncoins'], ' ; '.join(eqs)))
            meta.append((cell, k, r))
    res = core.run_svm('\n'.join(cons_in) + '\n', timeout=3000) if cons_in else []
    for (cell, k, r), verdict in zip(meta, res):
        if verdict != '1':
            rep.violation('stim sample', 'wrong-result', cell, 'shot %d is not an outcome the circuit can produce' % k, None, r)


def deterministic_paths(rep, svh, rng, gates, count, quick):
    shot_choices = [1, 63, 64, 65, 255, 256, 257, 1000, 1025] if not quick else [1, 64, 65, 257, 1025]
    # the compressed reference sample (loop folding) of loops with a transient and feedback looking back into folded iterations
    from checks import c06
    for _ in range(60 if quick else 1500):
        text = stimtext.circuit_text(c06.transient_case(rng))
        ref = svh.request('refsample', [rng.choice([64, 128, 256])], text)
        rep.count(('c02-tree', text), nontrivial=True)
        if len(ref) < 2 or ref[-1].startswith('ERR'):
            rep.violation('ReferenceSampleTree::from_circuit_reference_sample', 'reject-valid', text,
                          'computing the compressed reference sample failed: ' + (ref[-1] if ref else '')[:300])
        elif ref[0][4:] != ref[1][5:]:
            rep.violation('ReferenceSampleTree::from_circuit_reference_sample', 'wrong-result', text,
                          'decompressed compressed reference sample differs from the directly simulated one', ref[0][4:], ref[1][5:])
    texts = []
    for k in range(count):
        nm = rng.choice([1, 7, 63, 200, 256, 257, 300, 600, 1030])
        texts.append(det_circuit(rng, gates, nm)[0])
    # wide sparse records: a result 1, then a run of 247..257 / 510.. zeros, at every alignment to the byte grid (the r8 writer's
    # byte-wise path absorbs whole zero bytes and must emit a continuation marker at exactly 255)
    for k in range(12 if quick else 120):
        parts = ['X 1', 'M' + ' 0' * rng.randrange(0, 17) if rng.random() < 0.8 else 'M 1']
        for _ in range(rng.choice([1, 2, 3])):
            parts.append('M 1')
            parts.append('M' + ' 0' * rng.choice([247, 248, 253, 254, 255, 255, 255, 256, 257, 263, 510, 511]))
        parts.append('M 1' if rng.random() < 0.7 else 'M 0')
        texts.append('\n'.join(parts))
    for text in texts:
        W0 = rng.choice([64, 128, 256])
        ref = svh.request('refsample', [W0], text)
        rec = ref[0][4:]
        tree = ref[1][5:]
        if tree != rec:
            rep.violation('ReferenceSampleTree::from_circuit_reference_sample', 'wrong-result', text,
                          'decompressed compressed reference sample differs from the directly simulated one', rec, tree)
        bits = [c == '1' for c in rec]
        for shots in shot_choices:
            for fmt in FORMATS:
                if fmt == 'ptb64' and shots % 64 != 0:
                    continue
                expect = docformats.save(fmt, [bits] * shots)
                for streaming in (0, 1):
                    for refmode in (['tableau', 'tree'] if not quick else [rng.choice(['tableau', 'tree'])]):
                        W = rng.choice([64, 128, 256])
                        try:
                            out = svh.request('fsample_bytes', [W, rng.randrange(1 << 30), shots, fmt, streaming, refmode], text)
                        except core.Crash as e:
                            rep.violation('sample_batch_measurements_writing_results_to_disk<%d>' % W, 'crash',
                                          {'circuit': text, 'shots': shots, 'format': fmt, 'streaming': streaming}, str(e) + e.stderr[-1000:])
                            continue
                        rep.count(('c02-det', text, shots, fmt, streaming, refmode, W), nontrivial=streaming == 1 or shots > 256)
                        if out[0].startswith('ERR'):
                            rep.violation('sample_batch_measurements_writing_results_to_disk<%d>' % W, 'reject-valid',
                                          {'circuit': text, 'shots': shots, 'format': fmt, 'streaming': streaming}, out[0])
                            continue
                        got = bytes.fromhex(out[0][4:])
                        if got != expect:
                            rep.violation('sample_batch_measurements_writing_results_to_disk', 'wrong-result',
                                          {'format': fmt, 'streaming': streaming, 'measurements_ge_256': len(bits) >= 256},
                                          'outcome-deterministic circuit: bytes differ from the reference encoding of the reference '
                                          'sample (W=%d, shots=%d, %d measurements, ref=%s); circuit:\n%s' % (W, shots, len(bits), refmode, text),
                                          expect[:40].hex(), got[:40].hex())
    rep.sample({'deterministic_circuit': text, 'measurements': len(bits)})


def replay(path):
    r = json.load(open(path))
    print(json.dumps(r, indent=1))
    return 0
