"""C07 — circuit file format: faithful round trip, documented acceptance, total parser.
Proofs: tag escaping round trip and output bound (Tag.v), decimal integers (Dec.v), gate targets (Target.v:
write_succinct vs read_single_gate_target incl. the 24-bit limit), perfect hash of gate names (generated table).
Tie H: the real parser/printer on (A) structured circuits over every gate of the generated table with grammar variations
(aliases, case, whitespace, comments, CRLF, fusion) against the structure the generator intended, (B) print/parse
idempotence and API-built circuits with hostile tags/arguments, (C) every documented rejection rule, (D) mutated / truncated
/ random bytes under ASan with a time limit and a memory-growth bound, (E) reuse of a circuit object after a failed parse."""
import json
import math
import os

from vlib import core, gatetable, stimtext
from vlib.stimtext import Instr, T

F = gatetable.F
INV = 1 << 31
PX = 1 << 30
PZ = 1 << 29
REC = 1 << 28
COMB = 1 << 27
SWEEP = 1 << 26


def enc(t):
    if t.kind == 'q':
        return t.val | (INV if t.inv else 0)
    if t.kind == 'rec':
        return t.val | REC
    if t.kind == 'sweep':
        return t.val | SWEEP
    if t.kind == 'comb':
        return COMB
    v = t.val | (INV if t.inv else 0)
    if t.pauli in 'XY':
        v |= PX
    if t.pauli in 'YZ':
        v |= PZ
    return v


def rand_tag(rng):
    r = rng.random()
    if r < 0.6:
        return ''
    if r < 0.8:
        return ''.join(rng.choice('abcXYZ019 _-+.,:;(){}*!#') for _ in range(rng.randint(1, 6)))
    # every byte except the four that need escaping is allowed raw; those four go through escapes
    return ''.join(chr(rng.choice([rng.randrange(32, 127), 0x5c, 0x5d, 0x0a, 0x0d, 0x09, 0x5b])) for _ in range(rng.randint(1, 5)))


def escape_tag(tag):
    return tag.replace('\\', '\\B').replace('\r', '\\r').replace('\n', '\\n').replace(']', '\\C')


def rand_prob(rng):
    return rng.choice([0.0, 1.0, 0.5, 0.125, 0.001, 0.02, 1e-6, 0.3, 0.999999, 1e-10])


def gen_instr(rng, g, meas_avail):
    fl = g.flags
    name = g.name
    args = []
    ac = g.args
    if name == 'OBSERVABLE_INCLUDE':
        args = [float(rng.choice([0, 1, 5, 100, 4000000000]))]
    elif name in ('PAULI_CHANNEL_1', 'HERALDED_PAULI_CHANNEL_1'):
        k = 3 if name == 'PAULI_CHANNEL_1' else 4
        args = [rng.choice([0.0, 0.01, 0.125, 0.03125]) for _ in range(k)]
    elif name == 'PAULI_CHANNEL_2':
        args = [rng.choice([0.0, 0.0, 0.01, 0.03125]) for _ in range(15)]
    elif ac == 255 and (fl & F['DISJOINT_PROBS']):
        args = [rng.choice([0.0, 0.125, 0.25, 0.01]) for _ in range(rng.choice([0, 1, 2, 3]))]
    elif ac == 255:
        args = [rng.choice([0.0, 1.0, -2.5, 1e6, 123456.0, 1e-3, 0.25, 7.0, -0.0078125, 3e10]) for _ in range(rng.choice([0, 1, 2, 3]))]
    elif ac == 254:
        args = [rand_prob(rng)] if rng.random() < 0.5 else []
    elif ac == 1:
        args = [rand_prob(rng)]
    elif ac != 0:
        args = [rand_prob(rng) for _ in range(ac)]
    ts = []
    big = lambda: rng.choice([rng.randrange(8), rng.randrange(8), rng.randrange(300), 16777215, 65536])
    if fl & F['NO_TARGETS']:
        pass
    elif name == 'MPAD':
        ts = [T('q', rng.randrange(2)) for _ in range(rng.randint(1, 3))]
    elif fl & F['ONLY_REC']:
        if meas_avail == 0:
            return None
        ts = [T('rec', rng.randint(1, meas_avail)) for _ in range(rng.randint(0, 3))]
        if name == 'OBSERVABLE_INCLUDE' and rng.random() < 0.3:
            ts.append(T('pauli', big(), pauli=rng.choice('XYZ')))
    elif fl & F['COMBINERS']:
        for p in range(rng.randint(1, 3)):
            qs = rng.sample(range(12), rng.randint(1, 3))
            for j, q in enumerate(qs):
                if j:
                    ts.append(T('comb'))
                ts.append(T('pauli', q if rng.random() < 0.9 else 65536 + q, inv=rng.random() < 0.2, pauli=rng.choice('XYZ')))
    elif fl & F['PAULI_STRING']:
        qs = rng.sample(range(12), rng.randint(1, 3))
        ts = [T('pauli', q, pauli=rng.choice('XYZ')) for q in qs]
    elif fl & F['PAIRS']:
        for _ in range(rng.randint(1, 3)):
            a = big()
            b = big()
            while b == a:
                b = rng.randrange(300)
            ta, tb = T('q', a), T('q', b)
            if fl & F['PRODUCES_RESULTS']:
                ta.inv = rng.random() < 0.2
                tb.inv = rng.random() < 0.2
            if fl & F['CAN_TARGET_BITS'] and rng.random() < 0.3 and meas_avail:
                bit = T('rec', rng.randint(1, meas_avail)) if rng.random() < 0.6 else T('sweep', rng.randrange(50))
                if name in ('CX', 'CY'):
                    ta = bit
                elif name in ('XCZ', 'YCZ'):
                    tb = bit
                elif name == 'CZ':
                    if rng.random() < 0.5:
                        ta = bit
                    else:
                        tb = bit
                else:
                    pass
            ts += [ta, tb]
    else:
        ts = [T('q', big(), inv=(rng.random() < 0.2 and bool(fl & F['PRODUCES_RESULTS']))) for _ in range(rng.randint(1, 4))]
    return Instr(name, args, ts, rand_tag(rng))


def count_results(ins, names):
    g = names.get(ins.name)
    if not (g.flags & F['PRODUCES_RESULTS']):
        return 0
    if ins.name in ('MPP',):
        return len(stimtext.groups_of_products(ins.targets))
    if g.flags & F['PAIRS']:
        return len(ins.targets) // 2
    return len(ins.targets)


def gen_struct(rng, gates, names, depth=0, meas_avail=0):
    pool = [g for g in gates if g.name not in ('NOT_A_GATE', 'REPEAT')]
    out = []
    added = 0
    for _ in range(rng.randint(1, 7)):
        if depth < 2 and rng.random() < 0.15:
            body, badd = gen_struct(rng, gates, names, depth + 1, meas_avail + added)
            reps = rng.choice([1, 2, 3, 1000, (1 << 62) + 3, (1 << 63) - 1])
            r = Instr('REPEAT', body=body, reps=reps, tag=rand_tag(rng))
            out.append(r)
            added += badd
            continue
        g = rng.choice(pool)
        ins = gen_instr(rng, g, meas_avail + added)
        if ins is None:
            continue
        out.append(ins)
        added += count_results(ins, names)
        if rng.random() < 0.25:
            # an immediately following instruction with the same gate/args/tag: must fuse unless the gate is not fusable
            ins2 = gen_instr(rng, g, meas_avail + added)
            if ins2 is not None:
                ins2.args = list(ins.args)
                ins2.tag = ins.tag
                out.append(ins2)
                added += count_results(ins2, names)
    return out, added


def fmt_arg_text(rng, a):
    if a == int(a) and abs(a) < 1e15:
        r = rng.random()
        if r < 0.6:
            return str(int(a))
        if r < 0.8:
            return '%.1f' % a
        return '%e' % a
    return repr(float(a))


def render(rng, instrs, names, indent=0, vary=True):
    lines = []
    for ins in instrs:
        pad = ' ' * indent if not vary else rng.choice(['', ' ', '    ', '\t']) * (1 if indent == 0 else 2)
        if ins.name == 'REPEAT':
            tag = '[' + escape_tag(ins.tag) + ']' if ins.tag else ''
            head = (rng.choice(['REPEAT', 'repeat', 'Repeat']) if vary else 'REPEAT') + tag + rng.choice([' ', '  ', '\t']) + str(ins.reps) + rng.choice([' {', '{', '  {'])
            lines.append(pad + head)
            lines += render(rng, ins.body, names, indent + 4, vary)
            lines.append(pad + '}')
            continue
        g = names.get(ins.name)
        nm = ins.name
        if vary:
            if g.aliases and rng.random() < 0.4:
                nm = rng.choice(g.aliases)
            r = rng.random()
            if r < 0.2:
                nm = nm.lower()
            elif r < 0.3:
                nm = ''.join(c.lower() if rng.random() < 0.5 else c for c in nm)
        s = nm
        if ins.tag:
            s += '[' + escape_tag(ins.tag) + ']'
        if ins.args:
            sep = rng.choice([', ', ',', ' , ']) if vary else ', '
            s += '(' + sep.join(fmt_arg_text(rng, a) if vary else stimtext.fmt_arg(a) for a in ins.args) + ')'
        toks = []
        for t in ins.targets:
            if t.kind == 'comb':
                toks.append('*')
            else:
                toks.append(repr(t))
        body = ''
        k = 0
        while k < len(toks):
            if toks[k] == '*':
                body += '*'
            else:
                if body and not body.endswith('*'):
                    body += rng.choice([' ', '  ', '\t']) if vary else ' '
                body += toks[k]
            k += 1
        if body:
            s += ' ' + body
        if vary and rng.random() < 0.2:
            s += rng.choice(['  # comment', '#x', ' # [tag] {', '\t#}'])
        lines.append(pad + s)
        if vary and rng.random() < 0.1:
            lines.append(rng.choice(['', '   ', '# full line comment', '\t']))
    return lines


def expected_dump(instrs, names, depth=0):
    """structure after parsing: fusion of adjacent compatible instructions"""
    out = []
    prev = None
    for ins in instrs:
        if ins.name == 'REPEAT':
            out.append(('REPEAT', ins.tag, (), ins.reps, expected_dump(ins.body, names, depth + 1)))
            prev = None
            continue
        g = names.get(ins.name)
        item = [ins.name, ins.tag, tuple(ins.args), [enc(t) for t in ins.targets]]
        if prev is not None and prev[0] == item[0] and prev[1] == item[1] and prev[2] == item[2] and not (g.flags & F['NOT_FUSABLE']):
            prev[3] += item[3]
        else:
            out.append(item)
            prev = item
    return out


def parse_dump(lines):
    """harness structural dump -> same nested shape"""
    root = []
    stack = [(0, root)]
    for l in lines:
        if not l.startswith('I '):
            continue
        t = l.split(' ')
        depth = int(t[1])
        name = t[2]
        tag = bytes.fromhex(t[3][4:]).decode('latin1')
        args = tuple(float(x) for x in t[4][5:].split(',')) if t[4][5:] else ()
        while stack[-1][0] > depth:
            stack.pop()
        cur = stack[-1][1]
        if name == 'REPEAT':
            body = []
            cur.append(('REPEAT', tag, (), int(t[5][5:]), body))
            stack.append((depth + 1, body))
        else:
            targets = [int(x) for x in t[5][8:].split(',')] if t[5][8:] else []
            cur.append([name, tag, args, targets])
    return root


def close_args(a, b):
    """arguments equal to printed precision (six significant digits)"""
    if len(a) != len(b):
        return False
    for x, y in zip(a, b):
        if x == y:
            continue
        if abs(x - y) > 1e-5 * max(abs(x), abs(y)) + 1e-300:
            return False
    return True


def same_struct(a, b, exact):
    if len(a) != len(b):
        return False
    for x, y in zip(a, b):
        if x[0] != y[0] or x[1] != y[1]:
            return False
        if x[0] == 'REPEAT':
            if x[3] != y[3] or not same_struct(x[4], y[4], exact):
                return False
        else:
            if list(x[3]) != list(y[3]):
                return False
            if exact:
                if tuple(x[2]) != tuple(y[2]):
                    return False
            elif not close_args(x[2], y[2]):
                return False
    return True


def run(rep, tier):
    quick = tier == 'quick'
    asan = core.Svh('asan', timeout=20)
    gates, hashes = gatetable.regenerate(asan)
    names = stimtext.Names(gates)
    from checks import c11
    rep.set_proof(c11.prove_shared(['Properties_C07.v']))
    rep.trusted += ['Coq 8.16.1 kernel', 'harness/c07.cc', 'ASan/UBSan, per-request time limit, RSS measurement',
                    'the generator\'s own notion of the intended structure (vlib/stimtext.py target encodings)']
    rep.assumptions += ['floating point formatting/parsing (printf %g / strtod) is exercised, not modelled',
                        'memory safety and memory growth are measured (ASan, RSS), not proved; the full grammar is not modelled in Coq '
                        '(tags, integers, targets and name hashing are)']
    rng = rep.rng()

    # ---------- A. documented grammar accepted with the documented meaning; B. print/parse idempotence
    NA = 500 if quick else 20000
    for k in range(NA):
        struct, _ = gen_struct(rng, gates, names)
        lines = render(rng, struct, names, vary=True)
        eol = rng.choice(['\n', '\n', '\r\n'])
        text = eol.join(lines) + rng.choice(['', eol])
        entry = rng.choice(['string', 'file', 'stop_asap'])
        try:
            out = asan.request('cparse', [entry], text.encode('latin1').hex())
        except core.Crash as e:
            rep.violation('Circuit parser (%s)' % entry, classify(e), text, 'parser failed on valid text: ' + str(e) + e.stderr[-1500:])
            continue
        rep.count(('c07-a', text), nontrivial=len(struct) >= 3)
        if out and out[0].startswith('ERR'):
            rep.violation('Circuit parser (%s)' % entry, 'reject-valid', text, 'text following the documented grammar was rejected: ' + out[0])
            continue
        got = parse_dump(out[1:])
        want = expected_dump(struct, names)
        if not same_struct(got, want, exact=True):
            rep.violation('Circuit parser (%s)' % entry, 'wrong-result', text,
                          'parsed structure differs from the documented meaning (aliases, case, fusion, targets, tags, arguments)',
                          json.dumps(want)[:600], json.dumps(got)[:600])
            continue
        printed = bytes.fromhex(out[0][3:])
        out2 = asan.request('cparse', ['string'], printed.hex())
        if out2[0].startswith('ERR'):
            rep.violation('Circuit::str', 'wrong-result', text, 'printed circuit does not parse back: ' + out2[0], None, printed.decode('latin1')[:400])
            continue
        got2 = parse_dump(out2[1:])
        if not same_struct(got2, got, exact=False):
            rep.violation('Circuit::str', 'wrong-result', text, 'print then parse changes the circuit beyond printed precision',
                          json.dumps(got)[:500], json.dumps(got2)[:500])
            continue
        printed2 = bytes.fromhex(out2[0][3:])
        out3 = asan.request('cparse', ['string'], printed2.hex())
        if out3[0] != out2[0] or not same_struct(parse_dump(out3[1:]), got2, exact=True):
            rep.violation('Circuit::str', 'wrong-result', text, 'after one normalising round trip printing and parsing are not exact inverses',
                          printed2.decode('latin1')[:300], bytes.fromhex(out3[0][3:]).decode('latin1')[:300] if out3[0].startswith('OK') else out3[0])
    rep.sample({'text': text[:300]})

    api_roundtrip(rep, asan, rng, gates, names, 300 if quick else 10000)
    rejections(rep, asan, rng, names)
    fuzz(rep, asan, rng, gates, names, 1500 if quick else 60000)
    reuse_after_error(rep, asan, rng)
    target_lists(rep, asan, rng, 600 if quick else 20000)
    memory_growth(rep, rng)
    asan.close()
    rep.cov['rule'] = ('A: structured circuits over every gate of the generated table (aliases, mixed case, tabs/spaces, comments, CRLF, '
                       'blank lines, nested REPEAT with 63-bit counts, escaped tags, integer/float/exponent argument spellings, adjacent '
                       'fusable instructions) x 3 entry points; B: print/parse idempotence; API-built circuits with arbitrary tag bytes and '
                       'argument magnitudes; C: each documented rejection; D: mutation/truncation/random-byte fuzz under ASan with a 20 s limit; '
                       'E: object reuse after failed parses; memory growth on 1 MB inputs. Non-trivial = >= 3 instructions / distinct input.')


def classify(e):
    if 'timeout' in str(e):
        return 'hang'
    if 'use-after-free' in e.stderr:
        return 'uaf'
    if 'Sanitizer' in e.stderr or 'runtime error' in e.stderr:
        return 'oob'
    return 'crash'


D14_INPUT = 'OP QUBIT_COORDS - inf 0'


def api_roundtrip(rep, asan, rng, gates, names, count):
    # corpus: known finding D14 (non-finite arguments are accepted by the API and printed, but cannot be parsed back)
    out = asan.request('cbuild', [], D14_INPUT)
    rep.count(('c07-corpus', D14_INPUT), nontrivial=True)
    if out and out[-1].startswith('ERR') and 'REPARSE' in out:
        rep.violation('Circuit::str then Circuit(text)', 'reject-valid', D14_INPUT,
                      'a circuit built through the API prints to text that the parser rejects: ' + out[-1])
    for _ in range(count):
        lines = []
        want = []

        def emit(struct, depth):
            for ins in struct:
                if ins.name == 'REPEAT':
                    lines.append('REP %d %s {' % (ins.reps, ins.tag.encode('latin1').hex() or '-'))
                    emit(ins.body, depth + 1)
                    lines.append('}')
                else:
                    lines.append('OP %s %s %s %s' % (ins.name, ins.tag.encode('latin1').hex() or '-',
                                                    ','.join(repr(a) for a in ins.args) or '-',
                                                    ','.join(str(enc(t)) for t in ins.targets) or '-'))

        struct, _ = gen_struct(rng, gates, names)
        # hostile tags / magnitudes
        for ins in struct:
            if rng.random() < 0.3:
                ins.tag = ''.join(chr(rng.randrange(256)) for _ in range(rng.randint(1, 6)))
            if ins.name in ('QUBIT_COORDS', 'DETECTOR', 'SHIFT_COORDS') and rng.random() < 0.5:
                ins.args = [rng.choice([1e300, -1e-300, 5e-324, 123456.789, 1.20346e6, 0.1 + 0.2, 2.0 ** 63, -2.0 ** 63, 1e15, 1e16, 999999.5, 0.000123456789])
                            for _ in range(rng.randint(1, 3))]
        emit(struct, 0)
        try:
            out = asan.request('cbuild', [], '\n'.join(lines))
        except core.Crash as e:
            rep.violation('Circuit API + str + parse', classify(e), '\n'.join(lines), str(e) + e.stderr[-1500:])
            continue
        rep.count(('c07-api', tuple(lines)), nontrivial=True)
        if out and out[-1].startswith('ERR'):
            if 'TEXT ' in out[0] and 'REPARSE' in out:
                rep.violation('Circuit::str then Circuit(text)', 'reject-valid', '\n'.join(lines),
                              'a circuit built through the API prints to text that the parser rejects: ' + out[-1],
                              None, bytes.fromhex(out[0][5:]).decode('latin1')[:300])
            continue
        k = out.index('REPARSE')
        a = parse_dump(out[1:k])
        b = parse_dump(out[k + 2:])
        if not same_struct(a, b, exact=False):
            rep.violation('Circuit::str then Circuit(text)', 'wrong-result', '\n'.join(lines),
                          'API-built circuit changes through print/parse (beyond six significant digits of arguments)',
                          json.dumps(a)[:500], json.dumps(b)[:500])


REJECT = [
    ('unknown gate', 'NOTAGATE 0'), ('unknown gate', 'H_XYZ 0'), ('wrong argument count', 'X_ERROR 0'), ('wrong argument count', 'X_ERROR(0.1, 0.2) 0'),
    ('wrong argument count', 'H(0.1) 0'), ('wrong argument count', 'PAULI_CHANNEL_1(0.1, 0.1) 0'), ('wrong argument count', 'M(0.1, 0.1) 0'),
    ('probability outside [0,1]', 'X_ERROR(1.5) 0'), ('probability outside [0,1]', 'X_ERROR(-0.1) 0'), ('probability outside [0,1]', 'M(2) 0'),
    ('probability outside [0,1]', 'DEPOLARIZE1(nan) 0'), ('probabilities sum above 1', 'PAULI_CHANNEL_1(0.5, 0.4, 0.3) 0'),
    ('odd pair count', 'CX 0 1 2'), ('odd pair count', 'MXX 0'), ('pair repeats a target', 'CX 0 0'), ('pair repeats a target', 'SWAP 3 3'),
    ('misplaced combiner', 'MPP X0*'), ('misplaced combiner', 'MPP *X0'), ('misplaced combiner', 'MPP X0**X1'), ('misplaced combiner', 'MPP X0 * X1 *'),
    ('misplaced combiner', 'H 0*1'), ('zero repeat count', 'REPEAT 0 {\nH 0\n}'),
    ('unbalanced braces', 'REPEAT 2 {\nH 0'), ('unbalanced braces', 'H 0\n}'), ('unbalanced braces', '}'), ('unbalanced braces', 'X 0\nM 0\n}\nX 1\nM 1 0\n'),
    ('unbalanced braces', 'REPEAT 2 {\nH 0\n}\n}\nH 1'), ('unbalanced braces', 'H 0\n }  \nH 1'), ('unbalanced braces', 'REPEAT 2 {\nREPEAT 3 {\nH 0\n}'),
    ('missing brace', 'REPEAT 2\nH 0\n}'), ('unexpected brace', 'H 0 {\n}'), ('wrong target kind', 'H rec[-1]'), ('wrong target kind', 'H X0'),
    ('wrong target kind', 'DETECTOR 0'), ('wrong target kind', 'M rec[-1]'), ('wrong target kind', 'H !0'),
    ('wrong target kind', 'CX !0 1'), ('wrong target kind', 'TICK 0'), ('wrong target kind', 'MPP 0'), ('wrong target kind', 'OBSERVABLE_INCLUDE(0) 1'),
    ('bad lookback', 'DETECTOR rec[0]'), ('bad lookback', 'DETECTOR rec[1]'), ('bad lookback', 'DETECTOR rec[-]'), ('bad number', 'H 16777216'),
    ('bad number', 'H -1'), ('bad number', 'H 1.5'), ('bad number', 'X_ERROR(0.1.2) 0'), ('bad number', 'X_ERROR(abc) 0'), ('bad number', 'X_ERROR(inf) 0'),
    ('non-integer index', 'OBSERVABLE_INCLUDE(0.5) rec[-1]'), ('non-integer index', 'OBSERVABLE_INCLUDE(-1) rec[-1]'),
    ('unterminated tag', 'H[abc 0'), ('unterminated tag', 'H[abc'), ('bad escape', 'H[a\\qb] 0'), ('unterminated args', 'X_ERROR(0.1 0'),
    ('missing space', 'H0'), ('targets need spacing', 'H[tag]0'), ('repeat count too large', 'REPEAT 9223372036854775808 {\nH 0\n}'),
    ('MPAD value', 'MPAD 2'),
]
# numbers past the documented limits, including those that come back into range when reduced modulo 2^32 / 2^64
for _v in [1 << 63, (1 << 63) + 1, (1 << 64) - 1, 1 << 64, (1 << 64) + 1, (1 << 64) + 7, (1 << 64) + (1 << 62), 10 ** 20, 10 ** 30, 3 * (1 << 64) + 2]:
    REJECT.append(('repeat count too large', 'REPEAT %d {\nH 0\n}' % _v))
for _v in [1 << 24, (1 << 24) + 1, (1 << 32) - 1, 1 << 32, (1 << 32) + 1, (1 << 32) + 5, (1 << 33) + 3, 10 ** 12, (1 << 64) + 1, 10 ** 25]:
    REJECT += [('index too large', 'H %d' % _v), ('index too large', 'M !%d' % _v), ('index too large', 'MPP X%d' % _v),
               ('index too large', 'M 0\nDETECTOR rec[-%d]' % _v), ('index too large', 'CX sweep[%d] 0' % _v)]


def rejections(rep, asan, rng, names):
    for rule, text in REJECT:
        for entry in ('string', 'file', 'stop_asap'):
            try:
                out = asan.request('cparse', [entry], text.encode('latin1').hex())
            except core.Crash as e:
                rep.violation('Circuit parser (%s)' % entry, classify(e), text, 'rule "%s": %s' % (rule, str(e) + e.stderr[-1200:]))
                continue
            rep.count(('c07-reject', rule, text, entry), nontrivial=True)
            if not (out and out[0].startswith('ERR')):
                rep.violation('Circuit parser (%s)' % entry, 'accept-invalid', text,
                              'text violating the documented rule "%s" was accepted' % rule, 'an error', (out or ['?'])[0][:200])


def fuzz(rep, asan, rng, gates, names, count):
    seeds = []
    for _ in range(60):
        struct, _ = gen_struct(rng, gates, names)
        seeds.append('\n'.join(render(rng, struct, names, vary=True)).encode('latin1'))
    alphabet = b'[]{}()*!#\\,.-+eE \t\r\n0123456789XYZrecsweepHMR_'
    for k in range(count):
        base = bytearray(rng.choice(seeds))
        kind = rng.choice(['trunc', 'flip', 'insert', 'delete', 'random', 'byte', 'dup'])
        if kind == 'trunc' and base:
            base = base[:rng.randrange(len(base))]
        elif kind == 'flip' and base:
            for _ in range(rng.choice([1, 2, 4])):
                base[rng.randrange(len(base))] ^= 1 << rng.randrange(8)
        elif kind == 'insert':
            p = rng.randrange(len(base) + 1)
            base[p:p] = bytes(rng.choice(alphabet) for _ in range(rng.choice([1, 1, 2, 8])))
        elif kind == 'delete' and base:
            p = rng.randrange(len(base))
            del base[p:p + rng.choice([1, 1, 3])]
        elif kind == 'random':
            base = bytearray(rng.randrange(256) for _ in range(rng.randrange(0, 40)))
        elif kind == 'byte' and base:
            base[rng.randrange(len(base))] = rng.choice([0, 0xff, 0x80, 0x5b, 0x5d, 0x5c, 0x28, 0x7b, 0x7d])
        elif kind == 'dup' and base:
            p = rng.randrange(len(base))
            base[p:p] = base[p:p + rng.randrange(1, 20)]
        entry = rng.choice(['string', 'file', 'stop_asap'])
        try:
            out = asan.request('cparse', [entry], bytes(base).hex())
        except core.Crash as e:
            rep.violation('Circuit parser (%s)' % entry, classify(e), bytes(base).decode('latin1'),
                          'parser did not return cleanly on malformed input: ' + str(e) + e.stderr[-1500:])
            continue
        rep.count(('c07-fuzz', bytes(base)), nontrivial=True)
        if out and out[0].startswith('OK'):
            # accepted: must round trip exactly after one normalisation, and the string/file entry points must agree
            printed = bytes.fromhex(out[0][3:])
            o2 = asan.request('cparse', ['string'], printed.hex())
            if o2[0].startswith('ERR'):
                rep.violation('Circuit::str', 'wrong-result', bytes(base).decode('latin1'),
                              'accepted text prints to something the parser rejects: ' + o2[0], None, printed.decode('latin1')[:300])
            elif not same_struct(parse_dump(out[1:]), parse_dump(o2[1:]), exact=False):
                rep.violation('Circuit::str', 'wrong-result', bytes(base).decode('latin1'), 'accepted text does not round trip',
                              json.dumps(parse_dump(out[1:]))[:400], json.dumps(parse_dump(o2[1:]))[:400])
            if entry != 'stop_asap':
                other = 'file' if entry == 'string' else 'string'
                o3 = asan.request('cparse', [other], bytes(base).hex())
                if o3[0] != out[0]:
                    rep.violation('Circuit parser', 'wrong-result', bytes(base).decode('latin1'),
                                  'string and file entry points disagree on the same bytes', out[0][:200], o3[0][:200])


def reuse_after_error(rep, asan, rng):
    cases = [['X[abc] !!!', 'H 0'], ['X[t2](0.5) 1', 'Y 2'], ['M[tag] rec[-1]', 'M 0'], ['CX[pp] 0 0', 'S 1\nS[q] 1'],
             ['H[aaaa] 0 1 2 junk', 'H 3'], ['MPP[zz] X0*', 'MPP X1'], ['REPEAT[rr] 0 {\n}', 'TICK'], ['X_ERROR[nn](7) 0', 'X_ERROR(0.5) 0']]
    for bad, good in cases:
        try:
            out = asan.request('creuse', [], '\n'.join(t.encode('latin1').hex() for t in (bad, good)))
        except core.Crash as e:
            rep.violation('Circuit::append_from_text', classify(e), [bad, good], str(e) + e.stderr[-1200:])
            continue
        rep.count(('c07-reuse', bad, good), nontrivial=True)
        ok = [l for l in out if l.startswith('OK ')]
        ref = asan.request('cparse', ['string'], good.encode('latin1').hex())
        if out[0].startswith('REJECTED') and ok and ok[0] != ref[0]:
            rep.violation('Circuit::append_from_text', 'wrong-result', [bad, good],
                          'after a rejected append the next append is affected by the rejected text',
                          bytes.fromhex(ref[0][3:]).decode('latin1'), bytes.fromhex(ok[0][3:]).decode('latin1'))


def memory_growth(rep, rng):
    """inputs of size n and 2n: the additional peak memory for 2n must stay within a constant factor of that for n
    (linear growth), and within a generous absolute factor of the input size"""
    families = {
        'many instructions': lambda k: 'H 0 1 2\nCX 0 1\nM(0.125) 2\n' * (10000 * k),
        'one long instruction': lambda k: 'H ' + ' '.join(str(j % 1000) for j in range(60000 * k)),
        'long tag': lambda k: 'H[' + 'a' * (250000 * k) + '] 0',
        'nested repeats': lambda k: 'REPEAT 2 {\n' * (300 * k) + 'H 0\n' + '}\n' * (300 * k),
        'long comment': lambda k: '#' + 'x' * (250000 * k) + '\nH 0',
        'unterminated tag': lambda k: 'H[' + 'b' * (250000 * k),
        'many args': lambda k: 'DETECTOR(' + ', '.join('1' for _ in range(50000 * k)) + ')',
        'many blocks': lambda k: 'REPEAT 2 {\nH 0\n}\n' * (3000 * k),
    }
    for name, make in families.items():
        growth = {}
        for k in (1, 2, 4):
            svh = core.Svh('o1', timeout=60)
            try:
                before = rss_kb(svh)
                text = make(k)
                try:
                    svh.request('cparse', ['string'], text.encode().hex())
                except core.Crash as e:
                    rep.violation('Circuit parser (string)', classify(e), {'large_input': name, 'scale': k}, str(e) + e.stderr[-800:])
                    continue
                growth[k] = (rss_kb(svh) - before, len(text))
            finally:
                svh.close()
        rep.count(('c07-mem', name), nontrivial=True)
        if 1 in growth and 4 in growth:
            g1, n1 = growth[1]
            g4, n4 = growth[4]
            # linear growth: 4x the input may cost at most ~4x the memory (slack for allocator rounding and vector doubling)
            if g4 > 10 * max(g1, 4096) + 65536:
                rep.violation('Circuit parser (string)', 'memory', {'large_input': name},
                              'memory does not grow proportionally to the input: %d kB for %d bytes but %d kB for %d bytes' % (g1, n1, g4, n4))
            if g4 * 1024 > 20000 * n4 + (256 << 20):
                rep.violation('Circuit parser (string)', 'memory', {'large_input': name},
                              'peak memory grew by %d kB for an input of %d bytes' % (g4, n4))


def rss_kb(svh):
    out = svh.request('rss')
    for l in out:
        if l.startswith('VmHWM'):
            return int(l.split()[1])
    return 0


READER_MESSAGES = ['Expected a digit', 'Number too large', 'Target started with', 'Unrecognized target prefix', 'must be separated by spacing',
                   'followed by a space instead of a qubit index']


def target_lists(rep, asan, rng, count):
    """tie H for TargetList.v: the extracted read_targets / write_targets against the real reader and printer, on target lists written
    with irregular spacing, comments and deliberate malformations"""
    def tok(kind):
        v = rng.choice([0, 1, 5, 63, 64, 1000, 16777215])
        if kind == 'q':
            return str(v)
        if kind == 'm':
            return rng.choice(['', '!']) + str(v)
        if kind == 'rec':
            return 'rec[-%d]' % max(v, 1)
        if kind == 'sweep':
            return 'sweep[%d]' % v
        return rng.choice(['', '!']) + rng.choice('XYZxyz') + str(v)

    BAD = ['rec[-1', 'rec[1]', 'rec[-]', 'sweep[', 'sweep[3', 'X', '!', '!!0', '16777216', '99999999999', '0x1', 'Y 1', 'r', 's5', '-1', '0.5', '1e3', 'q0', '*', '**']
    inp = []
    meta = []
    for _ in range(count):
        gate, kinds = rng.choice([('H', ['q']), ('M', ['m']), ('MPP', ['p']), ('DETECTOR', ['rec']), ('CX', ['sweep', 'q']), ('CZ', ['rec', 'q']), ('R', ['q'])])
        toks = []
        if gate == 'MPP':
            for _ in range(rng.choice([1, 2, 3])):
                qs = rng.sample(range(40), rng.choice([1, 2, 3]))
                prod = [rng.choice(['', '!']) + rng.choice('XYZ') + str(q) for q in qs]
                star = rng.choice(['*', '*', ' *', '* ', ' * ', '\t*'])
                toks.append(star.join(prod))
        elif len(kinds) == 2:
            for _ in range(rng.choice([1, 2])):
                toks += [tok(kinds[0]), str(rng.randrange(0, 50) * 2 + 1)]
        else:
            toks = [tok(kinds[0]) for _ in range(rng.choice([0, 1, 2, 5]))]
        mal = rng.random() < 0.35
        if mal and toks:
            k = rng.randrange(len(toks))
            how = rng.choice(['glue', 'bad', 'bad', 'nospace'])
            if how == 'glue' and k + 1 < len(toks):
                toks[k:k + 2] = [toks[k] + toks[k + 1]]
            elif how == 'nospace':
                toks[k] = toks[k] + rng.choice(['X1', 'rec[-1]', '!2', 'sweep[0]'])
            else:
                toks[k] = rng.choice(BAD)
        sep = lambda: rng.choice([' ', ' ', '  ', '\t', ' \t '])
        body = ''.join(sep() + t for t in toks) + rng.choice(['', ' ', '\t', ' # note 1 2', '#x', '\r'])
        text = gate + body + '\n'
        inp.append('tgtread ' + (body + '\n').encode('latin1').hex())
        meta.append((gate, text))
    res = core.run_svm('\n'.join(inp) + '\n', timeout=1200)
    for (gate, text), m in zip(meta, res):
        try:
            out = asan.request('cparse', ['string'], text.encode('latin1').hex())
        except core.Crash as e:
            rep.violation('Circuit parser (string)', classify(e), text, 'parser failed: ' + str(e) + e.stderr[-800:])
            continue
        impl_err = out[0] if out and out[0].startswith('ERR') else None
        rep.count(('c07-t', text), nontrivial=m.startswith('OK') and ',' in m)
        if m.startswith('ERR'):
            if impl_err is None:
                rep.violation('read_arbitrary_targets_into', 'accept-invalid', text,
                              'the target list is rejected by the model of the reader (TargetList.read_targets) but the parser accepted it', 'ERR', out[0][:100])
            continue
        if not m.startswith('OK'):
            rep.broken_obligation('TargetList-model-run', {'text': text, 'model': m})
            continue
        want, rest, written = [x.strip() for x in m[3:].split('|')]
        if impl_err is not None:
            if any(x in impl_err for x in READER_MESSAGES):
                rep.violation('read_arbitrary_targets_into', 'reject-valid', text,
                              'the model of the reader accepts this target list but the parser rejected it while reading targets: ' + impl_err[:200])
            continue
        got = parse_dump(out[1:])
        tl = [str(t) for ins in got for t in ins[3]] if got else []
        wl = [x for x in want.split(',') if x]
        if tl != wl:
            rep.violation('read_arbitrary_targets_into', 'wrong-result', text, 'parsed targets differ from the model of the reader', wl, tl)
            continue
        # printer: the implementation's text for this instruction is the gate name followed by write_targets of the model
        printed = bytes.fromhex(out[0][3:]).decode('latin1').rstrip('\n')
        if got and len(got) == 1 and not printed.startswith(got[0][0] + bytes.fromhex(written).decode('latin1')) and '(' not in printed:
            rep.violation('write_targets', 'wrong-result', text, 'printed target list differs from the model of the printer',
                          bytes.fromhex(written).decode('latin1'), printed)


def replay(path):
    r = json.load(open(path))
    print(json.dumps(r, indent=1))
    return 0
