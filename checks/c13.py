"""C13 — circuit rewrites keep the documented relation to their input.
Tie O: original and rewritten circuit are both run on the Choi state (one Bell pair per qubit) of the Coq-extracted specification
with the same named fault/sweep variables; "every execution indistinguishable" is equality in distribution of
(measurement record, detectors, observables, signs of the final stabilizer generators) for every value of the shared variables,
decided by vlib/equiv.py through the verified GF(2) solver."""
import json

from vlib import core, equiv, gatetable, gencirc, stimtext
from checks import c03, c14

KINDS = ['decomposed', 'flattened', 'inverse', 'without_noise', 'without_tags', 'inline_feedback', 'time_reversed']
ENTRY = {'decomposed': 'simplified_circuit', 'flattened': 'Circuit::flattened', 'inverse': 'Circuit::inverse',
         'without_noise': 'Circuit::without_noise', 'without_tags': 'Circuit::without_tags',
         'inline_feedback': 'circuit_with_inlined_feedback', 'time_reversed': 'circuit_inverse_qec'}


def channel_sig(ir):
    return [(ch.kind, [(round(p, 12), tuple(v)) for p, v in ch.outcomes]) for ch in ir.channels]


def choi_prefix(names, n):
    h_id = names.get('H').id
    cx_id = names.get('CX').id
    return ['U1 %d %d' % (h_id, n + q) for q in range(n)] + ['U2 %d %d %d' % (cx_id, n + q, q) for q in range(n)]


def has_feedback(flat, names):
    for i in flat:
        g = names.get(i.name)
        if g.name in ('DETECTOR', 'OBSERVABLE_INCLUDE'):
            continue
        if any(t.kind == 'rec' for t in i.targets):
            return True
    return False


class Job:
    """one (original, rewritten) pair to compare"""

    def __init__(self, kind, text_a, text_b, n, ir_a, ir_b, what, extra=None):
        self.kind, self.text_a, self.text_b, self.n = kind, text_a, text_b, n
        self.ir_a, self.ir_b, self.what = ir_a, ir_b, what
        self.extra = extra or {}


def run(rep, tier):
    quick = tier == 'quick'
    svh = core.Svh('o1', timeout=120)
    gates, hashes = gatetable.regenerate(svh)
    names = stimtext.Names(gates)
    from checks import c11
    rep.set_proof(c11.prove_shared(['Properties_C13.v']))
    rep.trusted += ['Coq 8.16.1 kernel', 'extraction + runner/main.ml', 'vlib/stimtext.py', 'vlib/equiv.py (reduction of equality in distribution to GF(2) systems)',
                    'harness/c14.cc (rewrite command)']
    rep.assumptions += ['rewriting code other than the simplifier tables is tied by this oracle, not modelled in Coq', 'findings D5 D6 D16 D22 D23 D24 (fixed in /repo) are replayed from the corpus first', 'coordinates are compared through get_final_qubit_coords / get_detector_coordinates (tied to the unrolled program by C15)']
    rng = rep.rng()
    N = 720 if quick else 9000
    corpus = [('decomposed', 'MX !0'), ('decomposed', 'MRY !0'), ('decomposed', 'MXX !0 1'), ('decomposed', 'MZZ 0 !1'),
              ('decomposed', 'M(0.125) 0'), ('decomposed', 'MPP(0.125) X0*Y1'), ('decomposed', 'M 0\nCZ 0 rec[-1]'),
              ('decomposed', 'CZ 0 sweep[1]'), ('decomposed', 'SPP_DAG !X0*Y1 Z2'), ('decomposed', 'MX 0 1 0'),
              ('inline_feedback', 'M 0\nXCZ 1 rec[-1]\nM 1\nDETECTOR rec[-1] rec[-2]'),
              ('inline_feedback', 'M 0\nYCZ 1 rec[-1]\nMY 1\nDETECTOR rec[-1]'),
              ('inline_feedback', 'RX 0\nR 1\nM 0\nCX rec[-1] 0 0 1\nM 1\nDETECTOR rec[-1]'),
              ('inline_feedback', 'RX 0\nR 1\nM 0\nXCZ 0 rec[-1] 1 0\nM 1\nOBSERVABLE_INCLUDE(0) rec[-1]'),
              ('time_reversed', 'R 0\nMR 0 0\nDETECTOR rec[-1]'), ('time_reversed', 'R 0\nM !0\nDETECTOR rec[-1]')]
    todo = []
    for kind, text in corpus:
        todo.append((kind, text, None))
    for k in range(N):
        kind = (KINDS + ['inline_feedback', 'decomposed'])[k % (len(KINDS) + 2)]
        todo.append((kind, None, None))
    jobs = []
    tr_jobs = []
    # ---------------- phase 0: generate, ask for the rewrite, translate both sides ----------------
    for kind, text, _ in todo:
        nsweep = 3
        if text is None:
            text = gen_for(rng, gates, names, kind, nsweep)
            if text is None:
                continue
        body = stimtext.parse(text, names)
        flat_a = stimtext.flatten(body)
        n = max(stimtext.num_qubits(body), 1)
        entry = ENTRY[kind]
        if kind == 'time_reversed':
            tr_jobs.append((text, body, flat_a, n))
            continue
        try:
            out = svh.request('rewrite', [kind], text)
        except core.Crash as e:
            rep.violation(entry, 'crash', text, str(e) + e.stderr[-800:])
            continue
        if not out or not out[0].startswith('C ') or out[0].startswith('C ERR') or out[-1].startswith('ERR'):
            msg = out[0] if out else ''
            if out and out[-1].startswith('ERR'):
                msg = out[-1]
            if kind == 'inverse' and (not is_invertible(flat_a, names) or 'no well-defined inverse' in msg):
                rep.count(('c13-documented-error', kind, text), nontrivial=False)
                continue
            rep.violation(entry, 'reject-valid', text, 'raised for a valid circuit: ' + msg[:300])
            continue
        text_b = out[0][2:].replace(';', '\n')
        try:
            body_b = stimtext.parse(text_b, names)
            flat_b = stimtext.flatten(body_b)
        except Exception as ex:
            rep.violation(entry, 'wrong-result', text, 'result is not a parsable circuit: %r\n%s' % (ex, text_b))
            continue
        try:
            if kind == 'inverse':
                ua = [i for i in flat_a if not (names.get(i.name).flags & gatetable.F['NOISY'])]
                ub = [i for i in flat_b if not (names.get(i.name).flags & gatetable.F['NOISY'])]
                ir = stimtext.to_spec(ua + ub, names, nsweep=nsweep, noise=False)
                jobs.append(Job(kind, text, text_b, n, ir, None, 'identity'))
                na = sorted(i.text() for i in flatten_targets(flat_a, names) if names.get(i.name).flags & gatetable.F['NOISY'])
                nb = sorted(i.text() for i in flatten_targets(flat_b, names) if names.get(i.name).flags & gatetable.F['NOISY'])
                if na != nb:
                    rep.violation(entry, 'wrong-result', text, 'noise instructions changed by inverse(): %s vs %s' % (na[:4], nb[:4]))
                continue
            noise_a = kind != 'without_noise'
            ir_a = stimtext.to_spec(flat_a, names, nsweep=nsweep, noise=noise_a)
            ir_b = stimtext.to_spec(flat_b, names, nsweep=nsweep, noise=True)
        except ValueError as ex:
            rep.violation(entry, 'wrong-result', text, 'result is not an executable circuit (%s):\n%s' % (ex, text_b))
            continue
        # structural demands
        if kind in ('decomposed', 'flattened') and ir_a.num_meas != ir_b.num_meas:
            rep.violation(entry, 'wrong-result', text, 'number of measurements changed from %d to %d' % (ir_a.num_meas, ir_b.num_meas))
            continue
        if channel_sig(ir_a) != channel_sig(ir_b):
            rep.violation(entry, 'wrong-result', text, 'noise processes differ between input and result:\n%s' % text_b)
            continue
        if kind == 'flattened' and any(i.name in ('REPEAT', 'SHIFT_COORDS') for i in body_b):
            rep.violation(entry, 'wrong-result', text, 'flattened circuit still contains REPEAT or SHIFT_COORDS')
        if kind == 'decomposed':
            allowed = {'H', 'S', 'CX', 'M', 'R', 'MPAD', 'DETECTOR', 'OBSERVABLE_INCLUDE', 'TICK', 'QUBIT_COORDS', 'SHIFT_COORDS'}
            bad = [i.name for i in flat_b if names.get(i.name).name not in allowed and not (names.get(i.name).flags & gatetable.F['NOISY'])]
            if bad:
                rep.violation(entry, 'wrong-result', text, 'decomposed circuit contains %s' % sorted(set(bad)))
        if kind == 'inline_feedback' and has_feedback(flat_b, names):
            rep.violation(entry, 'wrong-result', text, 'result still contains measurement feedback:\n' + text_b)
        if kind == 'without_tags':
            if any(i.tag for i in all_instrs(body_b)):
                rep.violation(entry, 'wrong-result', text, 'result still has tags')
            stripped = stimtext.circuit_text(strip_tags(body))
            want = svh.request('canon', ['circuit'], stripped)
            if '\n'.join(want) != text_b.strip('\n'):
                rep.violation(entry, 'wrong-result', text, 'result differs from the input with tags deleted', '\n'.join(want), text_b)
        if kind == 'without_noise':
            ta = sorted(i.tag for i in all_instrs(body) if not pure_noise(i, names) and i.tag)
            tb = sorted(i.tag for i in all_instrs(body_b) if i.tag)
            if set(ta) != set(tb):
                rep.violation(entry, 'wrong-result', text, 'tags of kept instructions changed: %s vs %s' % (ta[:5], tb[:5]))
        # coordinates survive every rewrite: final qubit coordinates and (absolute) detector coordinates
        if 'COORDS' in text or 'DETECTOR(' in text:
            ca = [l for l in svh.request('cstats', [300], text) if l.startswith(('qcoord', 'dcoord '))]
            cb = [l for l in svh.request('cstats', [300], text_b) if l.startswith(('qcoord', 'dcoord '))]
            if ca != cb:
                diff = [x for x in ca if x not in cb][:3] + ['...'] + [x for x in cb if x not in ca][:3]
                rep.violation(entry, 'wrong-result', text, 'final qubit coordinates or detector coordinates differ between input and result: %s\n%s' % (diff, text_b))
        jobs.append(Job(kind, text, text_b, n, ir_a, ir_b, 'dem' if kind == 'inline_feedback' else 'all'))
    # ---------------- phase 1: run the originals ----------------
    inp = []
    for j in jobs:
        pre = choi_prefix(names, j.n)
        if j.what == 'identity':
            probes = ['PROBE %d:%s %d:%s' % (j.n + q, p, q, p) for q in range(j.n) for p in 'XZ']
            inp.append('spec %d %d ; %s' % (2 * j.n, j.ir_a.nvars, ' ; '.join(pre + list(j.ir_a.lines) + probes)))
        else:
            body = ' ; '.join(pre + list(j.ir_a.lines))
            inp.append('spec %d %d ; %s' % (2 * j.n, j.ir_a.nvars, body))
            inp.append('specgens %d %d ; %s' % (2 * j.n, j.ir_a.nvars, body))
    outs = core.run_svm('\n'.join(inp) + '\n', timeout=3000) if inp else []
    pos = 0
    inp2 = []
    for j in jobs:
        if j.what == 'identity':
            so = outs[pos]
            pos += 1
            if so.startswith('EXN'):
                rep.broken_obligation('spec-run', {'circuit': j.text_a, 'result': j.text_b, 'error': so})
                continue
            sp = stimtext.parse_spec_out(so)
            ok = all(f == (0, 0) for f in sp['probe'])
            rep.count(('c13', j.kind, j.text_a), nontrivial=len(j.ir_a.lines) > 4)
            if not ok:
                rep.violation(ENTRY[j.kind], 'wrong-result', j.text_a, 'circuit followed by its inverse() is not the identity Clifford:\n' + j.text_b)
            continue
        so, sg = outs[pos], outs[pos + 1]
        pos += 2
        if so.startswith('EXN') or sg.startswith('EXN'):
            rep.broken_obligation('spec-run', {'circuit': j.text_a, 'error': so})
            j.spa = None
            continue
        j.spa = stimtext.parse_spec_out(so)
        gens = []
        for item in sg.split(' '):
            if '/' in item:
                form, bits = item.split('/')
                gens.append((stimtext.parse_form(form), bits))
        # stabilizers of the output state conditional on the record (hidden coins averaged out): the circuit's flows
        j.flows = equiv.observable_stabilizers(gens, j.spa['rec'], j.ir_a.nvars, 2 * j.n) if j.what == 'all' else []
        probes = []
        for bits, c, sh, recs in j.flows:
            probes.append('PROBE ' + ' '.join('%d:%s' % (q, ch) for q, ch in enumerate(bits) if ch not in '_I'))
        pre = choi_prefix(names, j.n)
        bodyb = ' ; '.join(pre + list(j.ir_b.lines))
        inp2.append('spec %d %d ; %s' % (2 * j.n, j.ir_b.nvars, ' ; '.join([bodyb] + probes)))
        inp2.append('specgens %d %d ; %s' % (2 * j.n, j.ir_b.nvars, bodyb))
    outs2 = core.run_svm('\n'.join(inp2) + '\n', timeout=3000) if inp2 else []
    # ---------------- phase 2: compare distributions ----------------
    pos = 0
    qall = []
    qmeta = []
    for j in jobs:
        if j.what == 'identity' or getattr(j, 'spa', None) is None:
            continue
        so, sgb = outs2[pos], outs2[pos + 1]
        pos += 2
        if so.startswith('EXN') or sgb.startswith('EXN'):
            rep.violation(ENTRY[j.kind], 'wrong-result', j.text_a, 'result cannot be executed by the specification (%s):\n%s' % (so[:200], j.text_b))
            continue
        spb = stimtext.parse_spec_out(so)
        ng = len(j.flows)
        pb = spb['probe'][-ng:] if ng else []
        base = j.ir_a.nvars
        if j.ir_b.nvars != base:
            rep.violation(ENTRY[j.kind], 'wrong-result', j.text_a, 'noise processes differ between input and result:\n' + j.text_b)
            continue
        va, vb = [], []
        if j.what == 'all':
            if len(j.spa['rec']) != len(spb['rec']):
                rep.violation(ENTRY[j.kind], 'wrong-result', j.text_a, 'number of measurements changed:\n' + j.text_b)
                continue
            va += j.spa['rec']
            vb += spb['rec']
        if len(j.spa['det']) != len(spb['det']) or set(j.spa['obs']) != set(spb['obs']):
            rep.violation(ENTRY[j.kind], 'wrong-result', j.text_a, 'detectors or observables were added or removed:\n' + j.text_b)
            continue
        va += j.spa['det'] + [j.spa['obs'][k] for k in sorted(j.spa['obs'])]
        vb += spb['det'] + [spb['obs'][k] for k in sorted(spb['obs'])]
        if j.what == 'all':
            # same stabilizer flows: every flow of the input (Pauli on the Choi state = reference x output, sign as a function of
            # record and shared variables) holds in the result with the same expression, and the result has no more of them
            low = (1 << base) - 1
            bad = None
            for (bits, c, sh, recs), f in zip(j.flows, pb):
                if f is None:
                    bad = 'undetermined'
                    break
                fc, fm = f
                for r in recs:
                    fc ^= spb['rec'][r][0]
                    fm ^= spb['rec'][r][1]
                if fm != sh or fc != c:
                    bad = 'different sign relation'
                    break
            gensb = []
            for item in sgb.split(' '):
                if '/' in item:
                    form, bits = item.split('/')
                    gensb.append((stimtext.parse_form(form), bits))
            nb_flows = len(equiv.observable_stabilizers(gensb, spb['rec'], base, 2 * j.n))
            if bad is None and nb_flows != len(j.flows):
                bad = 'the result has %d independent flows, the input %d' % (nb_flows, len(j.flows))
            if bad:
                rep.violation(ENTRY[j.kind], 'wrong-result', j.text_a,
                              'stabilizer flows differ (%s; flow %s = const %d + shared %x + rec%s):\n%s' % (bad, bits, c, sh, recs, j.text_b))
                continue
        qs, labels = equiv.queries(va, vb, base)
        rep.count(('c13', j.kind, j.text_a), nontrivial=len(va) > 2 and j.text_a.strip() != j.text_b.strip())
        for q, l in zip(qs, labels):
            qall.append(q)
            qmeta.append((j, l))
    ans = core.run_svm('\n'.join(qall) + '\n', timeout=3000) if qall else []
    seen = set()
    for (j, l), a in zip(qmeta, ans):
        if a.strip() != '1' and id(j) not in seen:
            seen.add(id(j))
            rep.violation(ENTRY[j.kind], 'wrong-result', j.text_a,
                          'input and result are distinguishable (%s: %s):\n%s' % ('detectors/observables' if j.what == 'dem' else 'records, detectors, final state', l, j.text_b))
    # ---------------- time reversal ----------------
    time_reversal(rep, svh, rng, names, tr_jobs)
    if jobs:
        rep.sample({'kind': jobs[-1].kind, 'circuit': jobs[-1].text_a, 'result': jobs[-1].text_b})
    rep.notes['pairs_compared'] = len(jobs)
    svh.close()
    rep.cov['rule'] = ('random circuits (all gates, aliases, inverted and overlapping targets, pair/product measurements, feedback on either side, '
                       'sweep controls, nested REPEAT, every noise channel, tags, deterministic detectors/observables) x the seven rewrites, '
                       'round robin. Non-trivial = result differs textually from the input and more than 2 compared quantities.')


def is_invertible(flat, names):
    F = gatetable.F
    for i in flat:
        g = names.get(i.name)
        if g.name in ('TICK', 'QUBIT_COORDS', 'SHIFT_COORDS'):
            continue
        if not (g.flags & F['UNITARY']):
            return False
        if any(t.kind != 'q' and t.kind != 'pauli' and t.kind != 'comb' for t in i.targets):
            return False
    return True


def flatten_targets(flat, names):
    """noise instructions one application per instruction (so that fusion/reordering inside one instruction does not matter)"""
    out = []
    for i in flat:
        g = names.get(i.name)
        if not (g.flags & gatetable.F['NOISY']):
            continue
        if g.name in ('E', 'ELSE_CORRELATED_ERROR'):
            out.append(stimtext.Instr(g.name, i.args, i.targets))
            continue
        step = 2 if g.flags & gatetable.F['TARGETS_PAIRS'] else 1
        for k in range(0, len(i.targets), step):
            out.append(stimtext.Instr(g.name, i.args, i.targets[k:k + step]))
    return out


def all_instrs(body):
    for i in body:
        yield i
        if i.name == 'REPEAT':
            for j in all_instrs(i.body):
                yield j


def strip_tags(body):
    out = []
    for i in body:
        if i.name == 'REPEAT':
            out.append(stimtext.Instr('REPEAT', body=strip_tags(i.body), reps=i.reps))
        else:
            out.append(stimtext.Instr(i.name, i.args, i.targets))
    return out


def pure_noise(i, names):
    if i.name == 'REPEAT':
        return False
    g = names.get(i.name)
    return bool(g.flags & gatetable.F['NOISY']) and not (g.flags & gatetable.F['PRODUCES_RESULTS'])


def add_tags(rng, body):
    for i in all_instrs(body):
        if rng.random() < 0.3:
            i.tag = rng.choice(['a', 'tag 2', 'x=1,y=2', 'q'])
    return body


def gen_for(rng, gates, names, kind, nsweep):
    if kind == 'inverse':
        prof = gencirc.Profile(len_range=(2, 12), n_choices=[1, 2, 3, 4], repeat=True, feedback=False, sweep=False, noise=rng.random() < 0.15,
                               mpp=False, pair_meas=False, resets=False, measurements=False, unitary_only=True)
        n, body = gencirc.gen_circuit(rng, gates, prof)
        body = only_invertible(body, names)
        if rng.random() < 0.3:
            add_tags(rng, body)
        return stimtext.circuit_text(body) if body else None
    noise = kind in ('decomposed', 'flattened', 'without_noise', 'without_tags', 'inline_feedback') and rng.random() < 0.6
    prof = gencirc.Profile(len_range=(3, 14), n_choices=[1, 2, 3, 4], repeat=kind != 'time_reversed', feedback=(kind != 'time_reversed' or rng.random() < 0.1),
                           sweep=kind in ('decomposed', 'flattened', 'without_tags', 'without_noise'),
                           noise=noise, measure_noise=noise, heralded=noise)
    n, body = gencirc.gen_circuit(rng, gates, prof, sweep_count=nsweep)
    if noise:
        body = c03.restrict_noise(rng, body, 'approx')
    if kind == 'inline_feedback' and rng.random() < 0.7:
        n, body = gen_feedback_circuit(rng, noise)
    if kind in ('inline_feedback', 'decomposed', 'flattened') and rng.random() < 0.6:
        mix_feedback_pairs(rng, body, names, n)
    if kind in ('without_tags', 'without_noise', 'decomposed') and rng.random() < 0.6:
        add_tags(rng, body)
    if kind in ('inline_feedback', 'flattened', 'decomposed', 'without_noise', 'time_reversed') and rng.random() < 0.8:
        # deterministic detectors / observables chosen via the specification
        nq = max(stimtext.num_qubits(body), 1)
        ir0 = stimtext.to_spec(stimtext.flatten(body), names, nsweep=nsweep, noise=False)
        if kind == 'time_reversed':
            # parities that are deterministic for every input state (the detecting regions may not touch the start of the circuit)
            cmd = 'spec %d %d ; %s' % (2 * nq, ir0.nvars, ' ; '.join(choi_prefix(names, nq) + list(ir0.lines)))
        else:
            cmd = stimtext.spec_cmd(nq, ir0)
        so = core.run_svm(cmd + '\n', timeout=600)[0]
        if so.startswith('EXN'):
            return None
        sp0 = stimtext.parse_spec_out(so)
        body = c03.add_deterministic_annotations(rng, body, sp0['rec'], nsweep)
        if kind != 'time_reversed' and rng.random() < 0.5:
            from checks import c18
            body = c18.add_coordinates(rng, body, nq)
        if kind == 'time_reversed':
            body = [i for i in body if i.name != 'OBSERVABLE_INCLUDE' or rng.random() < 0.5]
    return stimtext.circuit_text(body)


def gen_feedback_circuit(rng, noise):
    """feedback-dense circuits: every feedback form (CX/CY/CZ rec first, CZ/XCZ/YCZ rec second), feedback pairs mixed with ordinary pairs
    on the same qubits inside one instruction, adjacent same-gate lines (which the parser fuses)"""
    I, T = stimtext.Instr, stimtext.T
    n = rng.choice([2, 3, 4])
    out = [I(rng.choice(['R', 'RX', 'RY']), [], [T('q', q)]) for q in range(n)]
    nmeas = 0
    for _ in range(rng.randint(4, 10)):
        k = rng.random()
        if k < 0.3 or nmeas == 0:
            g = rng.choice(['M', 'MX', 'MY', 'MR', 'MRX', 'M'])
            qs = rng.sample(range(n), rng.choice([1, 1, 2]))
            out.append(I(g, [], [T('q', q, inv=rng.random() < 0.2) for q in qs]))
            nmeas += len(qs)
        elif k < 0.65:
            g = rng.choice(['CX', 'CY', 'CZ', 'CZ', 'XCZ', 'YCZ'])
            ts = []
            for _ in range(rng.choice([1, 2, 2, 3])):
                q = rng.randrange(n)
                if rng.random() < 0.6:
                    bit = T('rec', rng.randint(1, min(nmeas, 4)))
                    first = g in ('CX', 'CY') or (g == 'CZ' and rng.random() < 0.5)
                    ts += [bit, T('q', q)] if first else [T('q', q), bit]
                else:
                    r = rng.choice([x for x in range(n) if x != q])
                    ts += [T('q', q), T('q', r)]
            out.append(I(g, [], ts))
        elif k < 0.85:
            g = rng.choice(['H', 'S', 'SQRT_X', 'CX', 'CZ', 'SWAP', 'H_YZ'])
            if g in ('CX', 'CZ', 'SWAP'):
                a, b = rng.sample(range(n), 2)
                out.append(I(g, [], [T('q', a), T('q', b)]))
            else:
                out.append(I(g, [], [T('q', rng.randrange(n))]))
        elif noise:
            out.append(I(rng.choice(['X_ERROR', 'Z_ERROR', 'DEPOLARIZE1']), [rng.choice([0.01, 0.02])], [T('q', rng.randrange(n))]))
    out.append(I(rng.choice(['M', 'MX', 'M']), [], [T('q', q) for q in range(n)]))
    return n, out


def mix_feedback_pairs(rng, body, names, n):
    """one instruction holding a feedback pair AND ordinary pairs that reuse the fed-back qubit (what adjacent lines fuse into)"""
    if n < 2:
        return
    for i in all_instrs(body):
        if i.name == 'REPEAT' or len(i.targets) != 2:
            continue
        g = names.get(i.name).name
        if g not in ('CX', 'CY', 'CZ', 'XCZ', 'YCZ'):
            continue
        a, b = i.targets
        if a.kind == 'rec' and b.kind == 'q':
            q = b.val
        elif b.kind == 'rec' and a.kind == 'q':
            q = a.val
        else:
            continue
        others = [x for x in range(n) if x != q]
        if not others:
            continue
        extra = []
        for _ in range(rng.choice([1, 1, 2])):
            r = rng.choice(others)
            extra += rng.choice([[stimtext.T('q', q), stimtext.T('q', r)], [stimtext.T('q', r), stimtext.T('q', q)]])
        if rng.random() < 0.7:
            i.targets = list(i.targets) + extra
        else:
            i.targets = extra + list(i.targets)


def only_invertible(body, names):
    out = []
    F = gatetable.F
    for i in body:
        if i.name == 'REPEAT':
            b = only_invertible(i.body, names)
            if b:
                out.append(stimtext.Instr('REPEAT', body=b, reps=i.reps, tag=i.tag))
            continue
        g = names.get(i.name)
        if g.name in ('TICK',) or (g.flags & F['UNITARY']) or (g.flags & F['NOISY'] and not g.flags & F['PRODUCES_RESULTS']):
            if all(t.kind in ('q', 'pauli', 'comb') for t in i.targets):
                out.append(i)
    return out


def time_reversal(rep, svh, rng, names, tr_jobs):
    entry = ENTRY['time_reversed']
    for text, body, flat, n in tr_jobs:
        ir = stimtext.to_spec(flat, names, nsweep=0, noise=False)
        nm = ir.num_meas
        pre = choi_prefix(names, n)
        bodycmd = ' ; '.join(pre + list(ir.lines))
        so, sg = core.run_svm('spec %d 0 ; %s\nspecgens %d 0 ; %s\n' % (2 * n, bodycmd, 2 * n, bodycmd), timeout=600)[:2]
        if so.startswith('EXN'):
            rep.broken_obligation('spec-run', {'circuit': text, 'error': so})
            continue
        sp = stimtext.parse_spec_out(so)
        if any(m for c, m in sp['det']):
            continue
        flows = c14.choi_flows(sg, sp['rec'], n, nm)
        # mix: products of basis flows
        chosen = []
        for _ in range(rng.choice([0, 1, 2, 3])):
            if flows:
                f = rng.choice(flows)
                if rng.random() < 0.4 and len(flows) > 1:
                    g = rng.choice(flows)
                    f = c14.mul_flows(f, g, n)[1]
                if f[1].strip('_') or f[2].strip('_'):
                    chosen.append(f)
        flag = int(rng.random() < 0.5)
        payload = text + '\n' + '\n'.join('@F ' + c14.flow_text(f, n) for f in chosen)
        inp = {'circuit': text, 'flows': [c14.flow_text(f, n) for f in chosen], 'dont_turn_measurements_into_resets': flag}
        try:
            out = svh.request('rewrite', ['time_reversed', flag], payload)
        except core.Crash as e:
            rep.violation(entry, 'crash', inp, str(e) + e.stderr[-800:])
            continue
        if not out or out[-1].startswith('ERR') or out[0].startswith('C ERR'):
            msg = out[-1] if out else ''
            if 'feedback isn\'t supported' in msg and has_feedback(flat, names):
                rep.count(('c13-documented-error', 'time_reversed', text), nontrivial=False)
                continue
            rep.violation(entry, 'reject-valid', inp, 'raised for a valid circuit and true flows: ' + msg[:300])
            continue
        text_b = out[0][2:].replace(';', '\n')
        try:
            new_flows = [c14.parse_flow(l[2:]) for l in out[1:] if l.startswith('F ')]
            body_b = stimtext.parse(text_b, names)
            flat_b = stimtext.flatten(body_b)
            ir_b = stimtext.to_spec(flat_b, names, nsweep=0, noise=False)
        except Exception as ex:
            rep.violation(entry, 'wrong-result', inp, 'result is not usable (%r):\n%s' % (ex, '\n'.join(out)))
            continue
        rep.count(('c13', 'time_reversed', text, tuple(inp['flows']), flag), nontrivial=bool(chosen) or ir.num_det > 0)
        if len(new_flows) != len(chosen):
            rep.violation(entry, 'wrong-result', inp, 'returned %d flows for %d given' % (len(new_flows), len(chosen)))
            continue
        nb = max(stimtext.num_qubits(body_b), n)
        pre_b = choi_prefix(names, nb)
        probes = ['PROBE ' + ' '.join(c14.flow_probe(c14.pad(f[1], nb), c14.pad(f[2], nb), nb)) for f in new_flows]
        sob = core.run_svm('spec %d 0 ; %s\n' % (2 * nb, ' ; '.join(pre_b + list(ir_b.lines) + probes)), timeout=600)[0]
        if sob.startswith('EXN'):
            rep.violation(entry, 'wrong-result', inp, 'result cannot be executed (%s):\n%s' % (sob[:200], text_b))
            continue
        spb = stimtext.parse_spec_out(sob)
        if len(spb['det']) != len(sp['det']):
            rep.violation(entry, 'wrong-result', inp, 'number of detectors changed from %d to %d:\n%s' % (len(sp['det']), len(spb['det']), text_b))
        bad = [k for k, (c, m) in enumerate(spb['det']) if m]
        if bad:
            rep.violation(entry, 'wrong-result', inp, 'detectors %s of the reversed circuit are not deterministic:\n%s' % (bad, text_b))
        pf = spb['probe'][-len(new_flows):] if new_flows else []
        for f0, f1, form in zip(chosen, new_flows, pf):
            if c14.pad(f1[1], nb).rstrip('_') != c14.pad(f0[2], nb).rstrip('_') or c14.pad(f1[2], nb).rstrip('_') != c14.pad(f0[1], nb).rstrip('_'):
                rep.violation(entry, 'wrong-result', inp, 'returned flow %s is not the reverse of %s' % (c14.flow_text(f1, nb), c14.flow_text(f0, n)))
                continue
            sv, uv = c14.spec_flow_holds(f1, form, spb['rec'], ir_b.num_meas)
            if not uv:
                rep.violation(entry, 'wrong-result', inp, 'the reversed circuit does not have the returned flow %s:\n%s' % (c14.flow_text(f1, nb), text_b))


def replay(path):
    r = json.load(open(path))
    print(json.dumps(r, indent=1))
    return 0
