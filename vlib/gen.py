"""Shared random generators (every choice comes from the Random object passed in)."""
from . import gatetable as gt

F = gt.F

SIZES = [1, 2, 3, 4, 5, 7, 63, 64, 65, 127, 128, 129, 255, 256, 257, 300]


def unitary_gates(gates):
    """fixed 1q/2q unitaries: list of (name-or-alias, canonical, arity)"""
    out = []
    for g in gates:
        if g.flags & F['UNITARY'] and len(g.flows) in (2, 4):
            ar = 1 if len(g.flows) == 2 else 2
            for n in [g.name] + g.aliases:
                out.append((n, g.name, ar))
    return out


def rand_pauli(rng, n, density=None):
    if density is None:
        density = rng.choice([0.1, 0.5, 0.9, 1.0])
    s = ''.join(rng.choice('XYZ') if rng.random() < density else '_' for _ in range(n))
    return rng.choice('+-') + s


def rand_targets(rng, n, arity, count=None, style=None):
    """targets for a broadcast instruction; pairs never repeat a qubit inside one pair"""
    if count is None:
        count = rng.choice([1, 1, 2, 3, 5])
    style = style or rng.choice(['any', 'any', 'boundary', 'repeat'])
    pool = list(range(n))
    if style == 'boundary':
        pool = [q for q in pool if q % 64 in (0, 1, 62, 63) or q >= n - 2] or pool
    ts = []
    if arity == 1:
        for _ in range(count):
            ts.append(rng.choice(pool))
        if style == 'repeat' and ts:
            ts.append(ts[0])
    else:
        if n < 2:
            return None
        for _ in range(count):
            a = rng.choice(pool)
            b = rng.choice(pool)
            while b == a:
                b = rng.randrange(n)
            ts += [a, b]
        if style == 'repeat' and len(ts) >= 2:
            k = rng.random()
            if k < 0.3:
                ts += [ts[1], ts[0]]
            elif k < 0.6:
                ts += [ts[0], ts[1]]
            else:
                c = rng.randrange(n)
                if c != ts[0]:
                    ts += [ts[0], c]
    return ts


def mixed_case(rng, name):
    r = rng.random()
    if r < 0.8:
        return name
    if r < 0.9:
        return name.lower()
    return ''.join(c.lower() if rng.random() < 0.5 else c for c in name)
