"""Tie G for the measurement / reset undo routines of SparseUnsignedRevFrameTracker (undo_MX .. undo_MRZ, undo_RX .. undo_RZ,
clear_qubits): each becomes a row (gauge axis, clears first, xors the record's sensitivities into xs / zs, consumes a result)
in coq/Gen_RevMeas.v; GenProofs_RevMeas.v proves every row is the backward step of AdjGen for the gate's documented basis."""
import os
import re

from . import core, cxx

SRC = 'src/stim/simulators/sparse_rev_frame_tracker.cc'
LOOP = 'for (size_t k = dat.targets.size(); k-- > 0;)'
KNOWN = {
    'auto q = dat.targets[k].qubit_value()': None,
    'num_measurements_in_past--': 'meas',
    'xs[q].clear()': 'clrx',
    'zs[q].clear()': 'clrz',
    'auto f = rec_bits.find(num_measurements_in_past)': 'find',
    'xs[q].xor_sorted_items(f->second.range())': 'addx',
    'zs[q].xor_sorted_items(f->second.range())': 'addz',
    'rec_bits.erase(f)': 'erase',
}


def parse_routine(src, name):
    got = list(cxx.function_bodies(src, r'void SparseUnsignedRevFrameTracker::%s\(const CircuitInstruction &dat\)\s*\{' % name))
    if len(got) != 1:
        raise cxx.Refuse('definition not found')
    body = ' '.join(got[0][1].split())
    row = {'gauge': '', 'clears': False, 'addx': False, 'addz': False, 'meas': False}
    m = re.match(r'handle_([xyz])_gauges\(dat\); ', body)
    if m:
        row['gauge'] = m.group(1)
        body = body[m.end():]
    if body == 'clear_qubits(dat);':
        row['clears'] = True
        return row
    if not body.startswith(LOOP + ' {') or not body.endswith('}'):
        raise cxx.Refuse('unexpected shape: ' + body[:120])
    inner = body[len(LOOP) + 2:-1].strip()
    # the conditional block is flattened: its statements only make sense after 'find'
    inner = inner.replace('if (f != rec_bits.end()) {', '').replace('}', '')
    seen = []
    for st in [x.strip() for x in inner.split(';') if x.strip()]:
        if st not in KNOWN:
            raise cxx.Refuse('statement not understood: ' + st)
        if KNOWN[st]:
            seen.append(KNOWN[st])
    order = [x for x in seen if x in ('clrx', 'clrz', 'find', 'addx', 'addz', 'erase', 'meas')]
    if 'find' in order:
        i = order.index('find')
        if any(x in order[:i] for x in ('addx', 'addz', 'erase')) or 'erase' not in order[i:] or 'meas' not in order[:i]:
            raise cxx.Refuse('order of record access')
        if any(x in order[i:] for x in ('clrx', 'clrz')):
            raise cxx.Refuse('clears after the record was added')
    elif any(x in order for x in ('addx', 'addz')):
        raise cxx.Refuse('record used without find')
    if ('clrx' in order) != ('clrz' in order):
        raise cxx.Refuse('clears only one of xs/zs')
    row['clears'] = 'clrx' in order
    row['addx'] = 'addx' in order
    row['addz'] = 'addz' in order
    row['meas'] = 'meas' in order
    return row


EA_SRC = 'src/stim/simulators/error_analyzer.cc'
EA_LOOPS = ['for (size_t k = dat.targets.size(); k-- > 0;)', 'for (size_t k = inst.targets.size(); k-- > 0;)']


def parse_ea_context(src, name):
    """ErrorAnalyzer::undo_<name>_with_context -> row"""
    got = list(cxx.function_bodies(src, r'void ErrorAnalyzer::undo_%s_with_context\(const CircuitInstruction &(dat|inst), const char \*context_op\)\s*\{' % name))
    if len(got) != 1:
        raise cxx.Refuse('definition not found')
    v = got[0][0].group(1)
    body = ' '.join(got[0][1].split())
    loop = 'for (size_t k = %s.targets.size(); k-- > 0;)' % v
    if not body.startswith(loop + ' {') or not body.endswith('}'):
        raise cxx.Refuse('unexpected shape: ' + body[:120])
    row = {'gauge': '', 'clears': False, 'addx': False, 'addz': False, 'meas': False}
    seen = []
    for st in [x.strip() for x in body[len(loop) + 2:-1].split(';') if x.strip()]:
        st = st.replace(v + '.', 'I.')
        if st == 'auto q = I.targets[k].qubit_value()':
            continue
        table = {
            'tracker.num_measurements_in_past--': 'meas',
            'SparseXorVec<DemTarget> &d = tracker.rec_bits[tracker.num_measurements_in_past]': 'find',
            'xor_sorted_measurement_error(d.range(), %s)' % v: 'noise',
            'tracker.xs[q].xor_sorted_items(d.range())': 'addx',
            'tracker.zs[q].xor_sorted_items(d.range())': 'addz',
            'check_for_gauge(tracker.zs[q], context_op, q, I.tag)': 'gz',
            'check_for_gauge(tracker.xs[q], context_op, q, I.tag)': 'gx',
            'check_for_gauge(tracker.xs[q], tracker.zs[q], context_op, q, I.tag)': 'gy',
            'tracker.rec_bits.erase(tracker.num_measurements_in_past)': 'erase',
            'tracker.xs[q].clear()': 'clrx',
            'tracker.zs[q].clear()': 'clrz',
        }
        if st not in table:
            raise cxx.Refuse('statement not understood: ' + st)
        seen.append(table[st])
    if ('clrx' in seen) != ('clrz' in seen):
        raise cxx.Refuse('clears only one of xs/zs')
    if any(x in seen for x in ('addx', 'addz')):
        i = seen.index('find') if 'find' in seen else -1
        if i < 0 or 'meas' not in seen[:i] or 'erase' not in seen[i:] or any(x in seen[:i] for x in ('addx', 'addz')):
            raise cxx.Refuse('order of record access')
    gs = [x for x in seen if x in ('gx', 'gy', 'gz')]
    if len(gs) != 1:
        raise cxx.Refuse('expected exactly one gauge test')
    if 'clrx' in seen and seen.index(gs[0]) > seen.index('clrx'):
        raise cxx.Refuse('gauge test after the clear')
    row['gauge'] = gs[0][1]
    row['clears'] = 'clrx' in seen
    row['addx'] = 'addx' in seen
    row['addz'] = 'addz' in seen
    row['meas'] = 'meas' in seen
    return row


def generate_ea(repo):
    src = cxx.strip_comments(open(os.path.join(repo, EA_SRC)).read())
    refused = []
    ctx = {}
    for name in ['RX', 'RY', 'RZ', 'MX', 'MY', 'MZ']:
        try:
            ctx[name] = parse_ea_context(src, name)
            got = list(cxx.function_bodies(src, r'void ErrorAnalyzer::undo_%s\(const CircuitInstruction &dat\)\s*\{' % name))
            if len(got) != 1 or not re.fullmatch(r'undo_%s_with_context\(dat, "[^"]*"\);' % name, ' '.join(got[0][1].split())):
                raise cxx.Refuse('undo_%s is not a plain wrapper of undo_%s_with_context' % (name, name))
        except cxx.Refuse as e:
            refused.append(('ErrorAnalyzer::undo_' + name, str(e)))
    rows = [('undo_' + n, r) for n, r in ctx.items()]
    for b, gr, gm in [('X', 'RX', 'MX'), ('Y', 'RY', 'MY'), ('Z', 'R', 'M')]:
        name = 'MR' + b
        try:
            got = list(cxx.function_bodies(src, r'void ErrorAnalyzer::undo_%s\(const CircuitInstruction &dat\)\s*\{' % name))
            want = ('for (size_t k = dat.targets.size(); k-- > 0;) { auto q = dat.targets[k]; '
                    'undo_R%s_with_context({GateType::%s, dat.args, &q, dat.tag}, "TEXT"); '
                    'undo_M%s_with_context({GateType::%s, dat.args, &q, dat.tag}, "TEXT"); }' % (b, gr, b, gm))
            if len(got) != 1 or re.sub(r'"[^"]*"', '"TEXT"', ' '.join(got[0][1].split())) != want:
                raise cxx.Refuse('body differs from "reset then measurement, one target at a time"')
            r, m = ctx.get('R' + b), ctx.get('M' + b)
            if r is None or m is None:
                raise cxx.Refuse('parts refused')
            if r['gauge'] != m['gauge']:
                raise cxx.Refuse('gauge axes of the two parts differ')
            rows.append(('undo_' + name, {'gauge': m['gauge'], 'clears': r['clears'], 'addx': m['addx'], 'addz': m['addz'], 'meas': m['meas']}))
        except cxx.Refuse as e:
            refused.append(('ErrorAnalyzer::undo_' + name, str(e)))
    # dispatch
    disp = []
    try:
        got = list(cxx.function_bodies(src, r'void ErrorAnalyzer::undo_gate\(const CircuitInstruction &inst\)\s*\{'))
        body = got[0][1]
        sw = re.search(r'switch\s*\(inst\.gate_type\)\s*\{', body)
        ob = sw.end() - 1
        cb = cxx.match_brace(body, ob)
        for gate, stmts in cxx.switch_table(body[ob + 1:cb]):
            m = re.fullmatch(r'(undo_\w+)\(inst\)', stmts[0]) if stmts else None
            if gate in ('M', 'MX', 'MY', 'MR', 'MRX', 'MRY', 'R', 'RX', 'RY'):
                disp.append((gate, m.group(1) if m else '?'))
    except Exception as e:
        refused.append(('ErrorAnalyzer::undo_gate', str(e)))
    return rows, disp, refused


def generate(repo=None):
    repo = repo or core.REPO
    src = cxx.strip_comments(open(os.path.join(repo, SRC)).read())
    refused = []
    rows = []
    # clear_qubits must clear both sets of every target
    got = list(cxx.function_bodies(src, r'void SparseUnsignedRevFrameTracker::clear_qubits\(const CircuitInstruction &dat\)\s*\{'))
    want = LOOP + ' { auto q = dat.targets[k].qubit_value(); xs[q].clear(); zs[q].clear(); }'
    if len(got) != 1 or ' '.join(got[0][1].split()) != want:
        refused.append(('clear_qubits', 'body differs from "clear xs and zs of every target"'))
    for name in ['undo_MX', 'undo_MY', 'undo_MZ', 'undo_MRX', 'undo_MRY', 'undo_MRZ', 'undo_RX', 'undo_RY', 'undo_RZ']:
        try:
            r = parse_routine(src, name)
            rows.append((name, r))
        except cxx.Refuse as e:
            refused.append((name, str(e)))

    ea_rows, ea_disp, ea_refused = generate_ea(repo)

    def b(x):
        return 'true' if x else 'false'
    out = ['(* GENERATED by vlib/gen_revmeas.py from %s of the working tree. *)' % SRC,
           'From Coq Require Import List String Bool.', 'Import ListNotations.', 'Local Open Scope string_scope.',
           '(* routine, gauge axis checked first, clears xs/zs first, xors the record sensitivities into xs, into zs, consumes a measurement *)',
           'Definition revmeas : list (string * string * bool * bool * bool * bool) := [%s].' % ';\n  '.join(
               '("%s", "%s", %s, %s, %s, %s)' % (n, r['gauge'], b(r['clears']), b(r['addx']), b(r['addz']), b(r['meas'])) for n, r in rows),
           'Definition revmeas_refused : list (string * string) := [%s].' % '; '.join('("%s", "%s")' % (a, c.replace('"', "'")) for a, c in refused),
           '(* the same for ErrorAnalyzer::undo_*_with_context (which also records measurement noise) and its own dispatch *)',
           'Definition ea_revmeas : list (string * string * bool * bool * bool * bool) := [%s].' % ';\n  '.join(
               '("%s", "%s", %s, %s, %s, %s)' % (n, r['gauge'], b(r['clears']), b(r['addx']), b(r['addz']), b(r['meas'])) for n, r in ea_rows),
           'Definition ea_dispatch : list (string * string) := [%s].' % '; '.join('("%s", "%s")' % x for x in ea_disp),
           'Definition ea_revmeas_refused : list (string * string) := [%s].' % '; '.join('("%s", "%s")' % (a, c.replace('"', "'")) for a, c in ea_refused)]
    core.write_if_changed(os.path.join(core.COQ, 'Gen_RevMeas.v'), '\n'.join(out) + '\n')
    return {'rows': len(rows), 'refused': refused, 'ea_rows': len(ea_rows), 'ea_refused': ea_refused}
