"""Tie G for the per-gate decomposition tables of the simplifier (src/stim/util_top/simplified_circuit.cc):
every `case GateType::G:` of simplify_disjoint_1q_instruction / simplify_disjoint_2q_instruction becomes a list of
(emitted gate, target buffer) in Gen_Simplify.v; GenProofs_Simplify.v proves each list realises G's table action."""
import os
import re

from . import core, cxx

BUF = {'ts': 'ts', 'qs1_buf': 'qs1', 'qs2_buf': 'qs2', 'qs_buf': 'qs', 'qs': 'qs', 'ps_buf': 'ps', 'ms1_buf': 'ms1', 'ms2_buf': 'ms2'}

# The code that fills the target buffers, verbatim (whitespace-normalised). The meaning recorded in GenProofs_Simplify.v:
#  1q: qs = ts without result inversion.  2q: qs1/qs2/qs = first / second / all qubits of the pairs; ps = qubit pairs without
#  result inversion; ms1/ms2 = first / second qubit of each pair carrying the XOR of the pair's inversions.
PROLOGUE_1Q = ('const auto &ts = inst.targets; qs_buf.clear(); for (auto t : ts) { qs_buf.push_back(t.is_inverted_result_target() ? '
               'GateTarget::qubit(t.qubit_value()) : t); } const auto &qs = qs_buf; switch (inst.gate_type)')
PROLOGUE_2Q = ('const auto &ts = inst.targets; qs_buf.clear(); qs1_buf.clear(); qs2_buf.clear(); ps_buf.clear(); ms1_buf.clear(); ms2_buf.clear(); '
               'for (size_t k = 0; k < inst.targets.size(); k += 2) { auto a = inst.targets[k]; auto b = inst.targets[k + 1]; '
               'if (a.has_qubit_value() && b.has_qubit_value()) { bool inverted = a.is_inverted_result_target() ^ b.is_inverted_result_target(); '
               'ps_buf.push_back(GateTarget::qubit(a.qubit_value())); ps_buf.push_back(GateTarget::qubit(b.qubit_value())); '
               'ms1_buf.push_back(GateTarget::qubit(a.qubit_value(), inverted)); ms2_buf.push_back(GateTarget::qubit(b.qubit_value(), inverted)); } '
               'if (a.has_qubit_value()) { auto t = GateTarget::qubit(a.qubit_value()); qs1_buf.push_back(t); qs_buf.push_back(t); } '
               'if (b.has_qubit_value()) { auto t = GateTarget::qubit(b.qubit_value()); qs2_buf.push_back(t); qs_buf.push_back(t); } } '
               'switch (inst.gate_type)')
# CZ: pairs are reordered so that a classical bit comes first and bit-bit pairs are dropped; for qubit-qubit pairs ps = ts, qs2 = second
CZ_PROLOGUE = ['ps_buf.clear()', 'qs2_buf.clear()', 'for (size_t k = 0; k < ts.size(); k += 2) { auto a = ts[k]', 'auto b = ts[k + 1]',
               'if (!b.has_qubit_value()) { std::swap(a, b)', 'if (b.has_qubit_value()) { ps_buf.push_back(a)', 'ps_buf.push_back(b)',
               'qs2_buf.push_back(b)']


def parse_stmt(st):
    st = ' '.join(st.split())
    if st == 'break':
        return None
    m = re.fullmatch(r'yield\(\{GateType::(\w+), (\{\}|inst\.args), (\w+), inst\.tag\}\)', st)
    if m:
        if m.group(3) not in BUF:
            raise cxx.Refuse('unknown target buffer ' + m.group(3))
        return (m.group(1), BUF[m.group(3)], m.group(2) != '{}')
    m = re.fullmatch(r'do_xcz\((\w+), inst\.tag\)', st)
    if m and m.group(1) in BUF:
        return ('XCZ', BUF[m.group(1)], False)
    raise cxx.Refuse('statement not understood: ' + st)


def table_of(src, fn):
    got = list(cxx.function_bodies(src, r'void %s\(const CircuitInstruction &inst\)\s*\{' % fn))
    if len(got) != 1:
        raise cxx.Refuse('definition of %s not found' % fn)
    body = got[0][1]
    sw = re.search(r'switch\s*\(inst\.gate_type\)\s*\{', body)
    ob = sw.end() - 1
    cb = cxx.match_brace(body, ob)
    return body[:ob], cxx.switch_table(body[ob + 1:cb])


def generate(repo=None):
    repo = repo or core.REPO
    src = cxx.strip_comments(open(os.path.join(repo, 'src/stim/util_top/simplified_circuit.cc')).read())
    refused = []
    tabs = {}
    for fn, key in [('simplify_disjoint_1q_instruction', 's1'), ('simplify_disjoint_2q_instruction', 's2')]:
        rows = []
        try:
            pre, table = table_of(src, fn)
            if ' '.join(pre.split()) != (PROLOGUE_1Q if key == 's1' else PROLOGUE_2Q):
                refused.append((fn, 'the code filling the target buffers differs from the modelled one'))
            for gate, stmts in table:
                if gate == 'default':
                    continue
                try:
                    if gate == 'CZ' and stmts[:len(CZ_PROLOGUE)] == CZ_PROLOGUE:
                        stmts = stmts[len(CZ_PROLOGUE):]
                    seq = [x for x in (parse_stmt(s) for s in stmts) if x is not None]
                    rows.append((gate, seq))
                except cxx.Refuse as e:
                    refused.append((gate, str(e)))
        except Exception as e:
            refused.append((fn, str(e)))
        tabs[key] = rows
    # do_xcz must be "CX with every pair swapped"
    got = list(cxx.function_bodies(src, r'void do_xcz\(SpanRef<const GateTarget> targets, std::string_view tag\)\s*\{'))
    want = ('if (targets.empty()) { return; } qs_buf.clear(); for (size_t k = 0; k < targets.size(); k += 2) { '
            'qs_buf.push_back(targets[k + 1]); qs_buf.push_back(targets[k]); } yield(CircuitInstruction{GateType::CX, {}, qs_buf, tag});')
    if len(got) != 1 or ' '.join(got[0][1].split()) != want:
        refused.append(('do_xcz', 'body differs from "CX with swapped pairs"'))

    def row(g, seq):
        return '("%s", [%s])' % (g, '; '.join('("%s", "%s", %s)' % (a, b, 'true' if c else 'false') for a, b, c in seq))
    out = ['(* GENERATED by vlib/gen_simplify.py from src/stim/util_top/simplified_circuit.cc of the working tree. *)',
           'From Coq Require Import List String Bool.', 'Import ListNotations.', 'Local Open Scope string_scope.',
           '(* gate -> emitted (gate, target buffer, carries the instruction arguments) in order *)',
           'Definition simp1 : list (string * list (string * string * bool)) := [%s].' % ';\n  '.join(row(g, s) for g, s in tabs['s1']),
           'Definition simp2 : list (string * list (string * string * bool)) := [%s].' % ';\n  '.join(row(g, s) for g, s in tabs['s2']),
           'Definition simp_refused : list (string * string) := [%s].' % '; '.join(
               '("%s", "%s")' % (a, b.replace('"', "'")) for a, b in refused)]
    core.write_if_changed(os.path.join(core.COQ, 'Gen_Simplify.v'), '\n'.join(out) + '\n')
    return {'s1': len(tabs['s1']), 's2': len(tabs['s2']), 'refused': refused}
