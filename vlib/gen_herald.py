"""Tie G for HERALDED_ERASE in both simulators: the erasure's Pauli is taken from a 64-bit buffer refilled from the generator.
The per-event statements are executed symbolically for 70 consecutive events, tracking WHICH generator word and WHICH bit
positions decide the X and Z flips; coq/Gen_Herald.v lists them and GenProofs_Herald.v proves every event uses two bits
that no other event uses (so the four Paulis are uniform and different erasures independent), refills every 32 events, and
always sets the herald. HERALDED_PAULI_CHANNEL_1 of the bulk sampler: the interval tests on the uniform draw are translated to
the cumulative thresholds of X, Z, Y."""
import os
import re

from . import core, cxx

FRAME = 'src/stim/simulators/frame_simulator.inl'
TAB = 'src/stim/simulators/tableau_simulator.inl'
EVENTS = 70


def symbolic(stmts, xname, zname, herald_pat):
    word, shift, size = -1, 0, 0
    words_drawn = 0
    trace = []
    for _ in range(EVENTS):
        xb = zb = None
        herald = False
        k = 0
        while k < len(stmts):
            st = stmts[k]
            k += 1
            if st in ('auto shot = s % batch_size', 'auto target = s / batch_size', 'auto qubit = inst.targets[target].qubit_value()'):
                continue
            if st == 'if (buf_size == 0) { rng_buf = rng()':
                if k < len(stmts) and stmts[k] == 'buf_size = 64':
                    k += 1
                else:
                    raise cxx.Refuse('refill block')
                if size == 0:
                    word, shift, size = words_drawn, 0, 64
                    words_drawn += 1
                continue
            m = re.fullmatch(re.escape(xname) + r' \^= \(bool\)\(rng_buf & (\d+)\)', st)
            if m:
                xb = (word, shift + int(m.group(1)).bit_length() - 1) if int(m.group(1)) & (int(m.group(1)) - 1) == 0 else None
                if xb is None:
                    raise cxx.Refuse('mask is not a single bit')
                continue
            m = re.fullmatch(re.escape(zname) + r' \^= \(bool\)\(rng_buf & (\d+)\)', st)
            if m:
                zb = (word, shift + int(m.group(1)).bit_length() - 1) if int(m.group(1)) & (int(m.group(1)) - 1) == 0 else None
                if zb is None:
                    raise cxx.Refuse('mask is not a single bit')
                continue
            if re.fullmatch(herald_pat, st):
                herald = True
                continue
            m = re.fullmatch(r'rng_buf >>= (\d+)', st)
            if m:
                shift += int(m.group(1))
                continue
            m = re.fullmatch(r'buf_size -= (\d+)', st)
            if m:
                size -= int(m.group(1))
                if size < 0:
                    raise cxx.Refuse('buffer size becomes negative')
                continue
            raise cxx.Refuse('statement not understood: ' + st)
        if xb is None or zb is None:
            raise cxx.Refuse('an event does not flip both tables conditionally')
        trace.append((xb, zb, herald))
    return trace


def lambda_stmts(body, header_re):
    m = re.search(header_re, body)
    if not m:
        raise cxx.Refuse('for_samples call not found')
    ob = body.index('{', m.end() - 1)
    cb = cxx.match_brace(body, ob)
    inner = ' '.join(body[ob + 1:cb].split())
    return [x.strip() for x in inner.replace('}', '').split(';') if x.strip()]


def generate(repo=None):
    repo = repo or core.REPO
    refused = []
    traces = {}
    for key, path, cls, xname, zname, hpat, hdr in [
        ('frame', FRAME, 'FrameSimulator<W>', 'x_table[qubit][shot]', 'z_table[qubit][shot]', r'm_record\.storage\[m_record\.stored \+ target\]\[shot\] = 1',
         r'uint64_t rng_buf = 0;\s*size_t buf_size = 0;\s*RareErrorIterator::for_samples\(inst\.args\[0\], nt \* batch_size, rng, \[&\]\(size_t s\) \{'),
        ('tableau', TAB, 'TableauSimulator<W>', 'inv_state.zs.signs[qubit]', 'inv_state.xs.signs[qubit]', r'measurement_record\.storage\[offset \+ target\] = true',
         r'uint64_t rng_buf = 0;\s*size_t buf_size = 0;\s*RareErrorIterator::for_samples\(inst\.args\[0\], nt, rng, \[&\]\(size_t target\) \{')]:
        try:
            src = cxx.strip_comments(open(os.path.join(repo, path)).read())
            got = list(cxx.function_bodies(src, r'void %s::do_HERALDED_ERASE\(const CircuitInstruction &inst\)\s*\{' % re.escape(cls)))
            if len(got) != 1:
                raise cxx.Refuse('definition not found')
            stmts = lambda_stmts(got[0][1], hdr)
            # the tableau version names the flips by the inverse tableau's sign rows: zs.signs <-> X applied, xs.signs <-> Z applied
            traces[key] = symbolic(stmts, xname, zname, hpat)
        except (cxx.Refuse, ValueError) as e:
            refused.append((cls + '::do_HERALDED_ERASE', str(e)))
            traces[key] = []
    # HERALDED_PAULI_CHANNEL_1 of the bulk sampler: thresholds
    hpc = []
    try:
        src = cxx.strip_comments(open(os.path.join(repo, FRAME)).read())
        got = list(cxx.function_bodies(src, r'void FrameSimulator<W>::do_HERALDED_PAULI_CHANNEL_1\(const CircuitInstruction &inst\)\s*\{'))
        b = ' '.join(got[0][1].split())
        for need in ['double hi = inst.args[0];', 'double hx = inst.args[1];', 'double hy = inst.args[2];', 'double hz = inst.args[3];', 'double t = hi + hx + hy + hz;',
                     'RareErrorIterator::for_samples(t, nt * batch_size, rng,', 'm_record.storage[m_record.stored + target][shot] = 1;', 'double p = dist(rng) * t;']:
            if need not in b:
                raise cxx.Refuse('expected statement missing: ' + need)
        m = re.search(r'if \(p < (.*?)\) \{ (.*?) \} else if \(p < (.*?)\) \{ (.*?) \} else if \(p < (.*?)\) \{ (.*?) \}', b)
        if not m:
            raise cxx.Refuse('interval tests')
        for bound, action in [(m.group(1), m.group(2)), (m.group(3), m.group(4)), (m.group(5), m.group(6))]:
            acts = sorted(x.strip() for x in action.split(';') if x.strip())
            fx = 'x_table[qubit][shot] ^= 1' in acts
            fz = 'z_table[qubit][shot] ^= 1' in acts
            if len(acts) != int(fx) + int(fz):
                raise cxx.Refuse('action ' + action)
            hpc.append((bound.replace(' ', ''), fx, fz))
    except (cxx.Refuse, IndexError) as e:
        refused.append(('FrameSimulator::do_HERALDED_PAULI_CHANNEL_1', str(e)))

    def show(tr):
        return '; '.join('((%d, %d), (%d, %d), %s)' % (x[0], x[1], z[0], z[1], 'true' if h else 'false') for x, z, h in tr)
    out = ['(* GENERATED by vlib/gen_herald.py from %s and %s of the working tree. *)' % (FRAME, TAB),
           'From Coq Require Import List String Bool Arith.', 'Import ListNotations.',
           '(* per consecutive erasure event: (generator word, bit) deciding the X flip, the same for the Z flip, herald set *)',
           'Definition herald_trace_frame : list ((nat * nat) * (nat * nat) * bool) := [%s].' % show(traces['frame']),
           'Definition herald_trace_tableau : list ((nat * nat) * (nat * nat) * bool) := [%s].' % show(traces['tableau']),
           'Local Open Scope string_scope.',
           '(* HERALDED_PAULI_CHANNEL_1 (bulk sampler): upper bound of the interval of the uniform draw p in [0, hi+hx+hy+hz), flips x, flips z *)',
           'Definition hpc1_intervals : list (string * bool * bool) := [%s].' % '; '.join('("%s", %s, %s)' % (b, 'true' if fx else 'false', 'true' if fz else 'false') for b, fx, fz in hpc),
           'Definition herald_refused : list (string * string) := [%s].' % '; '.join('("%s", "%s")' % (a, c.replace('"', "'")) for a, c in refused)]
    core.write_if_changed(os.path.join(core.COQ, 'Gen_Herald.v'), '\n'.join(out) + '\n')
    return {'events': EVENTS, 'refused': refused}
