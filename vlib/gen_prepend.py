"""Tie G for Tableau<W>::prepend_* (tableau_specialized_prepend.inl) and the unitary part of
TableauSimulator<W>::do_gate (tableau_simulator.inl): row programs -> coq/Gen_Prepend.v."""
import os
import re

from . import core, cxx

SRC_P = 'src/stim/stabilizers/tableau_specialized_prepend.inl'
SRC_T = 'src/stim/simulators/tableau_simulator.inl'
ROW = {('xs', '1'): 'RX1', ('zs', '1'): 'RZ1', ('xs', '2'): 'RX2', ('zs', '2'): 'RZ2'}


class Prog:
    def __init__(self, params, stmts):
        self.params = params
        self.stmts = stmts


def load_prepends(src):
    funcs = {}
    pat = r'void Tableau<W>::(prepend_\w+)\(((?:const )?size_t \w+(?:, (?:const )?size_t \w+)?)\)\s*\{'
    for m, body in cxx.function_bodies(src, pat):
        params = [p.split()[-1] for p in m.group(2).split(',')]
        funcs[m.group(1)] = Prog(params, cxx.statements(body))
    return funcs


def expand(funcs, name, args, depth=0):
    """inline the row program of prepend_<name> with its parameters bound to roles ('1'/'2')"""
    if depth > 6:
        raise cxx.Refuse('call depth')
    if name not in funcs:
        raise cxx.Refuse('unknown routine ' + name)
    f = funcs[name]
    if len(args) != len(f.params):
        raise cxx.Refuse('arity of ' + name)
    val = dict(zip(f.params, args))
    alias = {}
    ops = []

    def ref(tok):
        tok = tok.strip()
        if tok in alias:
            return alias[tok]
        m = re.fullmatch(r'(xs|zs)\[(\w+)\]', tok)
        if m and m.group(2) in val:
            return ROW[(m.group(1), val[m.group(2)])]
        raise cxx.Refuse('%s: row reference %s' % (name, tok))

    for st in f.stmts:
        st = ' '.join(st.split())
        m = re.fullmatch(r'(?:PauliStringRef<W>|auto) (\w+) = ((?:xs|zs)\[\w+\])', st)
        if m:
            alias[m.group(1)] = ref(m.group(2))
            continue
        m = re.fullmatch(r'(.+?)\.sign \^= (?:1|true)', st)
        if m:
            ops.append('OFlip %s' % ref(m.group(1)))
            continue
        m = re.fullmatch(r'(.+?) \*= IgnoreAntiCommute<W>\((.+?)\)', st)
        if m:
            ops.append('OMul %s %s true' % (ref(m.group(1)), ref(m.group(2))))
            continue
        m = re.fullmatch(r'(.+?) \*= (.+)', st)
        if m:
            ops.append('OMul %s %s false' % (ref(m.group(1)), ref(m.group(2))))
            continue
        m = re.fullmatch(r'(.+?)\.swap_with\((.+?)\)', st)
        if m:
            ops.append('OSwap %s %s' % (ref(m.group(1)), ref(m.group(2))))
            continue
        m = re.fullmatch(r'(prepend_\w+)\(([^)]*)\)', st)
        if m:
            a = [x.strip() for x in m.group(2).split(',')]
            for x in a:
                if x not in val:
                    raise cxx.Refuse('%s: call argument %s' % (name, x))
            ops += expand(funcs, m.group(1), [val[x] for x in a], depth + 1)
            continue
        raise cxx.Refuse('%s: unsupported statement: %s' % (name, st))
    return ops


ARG_ROLE = {'q.data': '1', 'q1': '1', 'q2': '2', 'targets[k].data': '1', 'targets[k + 1].data': '2', 'c': '1', 't': '2',
            'q': '1'}


def quantum_branch(body, var1, var2):
    """statements of the first branch of `if (!((a | b) & (TARGET_RECORD_BIT | TARGET_SWEEP_BIT))) { ... }`"""
    m = re.search(r'if\s*\(\s*!\(\(%s \| %s\) & \(TARGET_RECORD_BIT \| TARGET_SWEEP_BIT\)\)\)\s*\{' % (var1, var2), body)
    if not m:
        return None
    ob = m.end() - 1
    cb = cxx.match_brace(body, ob)
    return body[:m.start()], body[ob + 1:cb]


def sim_routine(name, body, funcs, singles):
    """composite row program (for one target / one pair, quantum case) of TableauSimulator::do_<name>"""
    body = cxx.strip_comments(body)
    if body.strip() == '':
        return []
    m = re.search(r'\bfor\s*\(', body)
    if not m:
        raise cxx.Refuse('no target loop')
    ob = body.index('{', m.end())
    cb = cxx.match_brace(body, ob)
    inner = body[ob + 1:cb]
    qb = quantum_branch(inner, 'q1', 'q2')
    if qb is not None:
        pre, branch = qb
        inner = pre + branch
    ops = []
    ARG = dict(ARG_ROLE)
    for st in cxx.statements(inner):
        st = ' '.join(st.split())
        mm = re.fullmatch(r'auto (\w+) = targets\[k( \+ 1)?\]\.data', st)
        if mm:
            ARG[mm.group(1)] = '2' if mm.group(2) else '1'
            continue
        if re.fullmatch(r'(q1|q2) &= ~TARGET_INVERTED_BIT', st) or st == 'continue':
            continue
        mm = re.fullmatch(r'inv_state\.(prepend_\w+)\(([^)]*)\)', st)
        if mm:
            a = [x.strip() for x in mm.group(2).split(',')]
            for x in a:
                if x not in ARG:
                    raise cxx.Refuse('%s: argument %s' % (name, x))
            ops += expand(funcs, mm.group(1), [ARG[x] for x in a])
            continue
        mm = re.fullmatch(r'(single_c[xy])\((.+?), (.+?)\)', st)
        if mm and mm.group(1) in singles:
            a, b = mm.group(2).strip(), mm.group(3).strip()
            if a not in ARG or b not in ARG:
                raise cxx.Refuse('%s: argument of %s' % (name, mm.group(1)))
            callee, cargs = singles[mm.group(1)]
            role = {'c': ARG[a], 't': ARG[b]}
            ops += expand(funcs, callee, [role[x] for x in cargs])
            continue
        raise cxx.Refuse('%s: unsupported statement: %s' % (name, st))
    return ops


def generate(repo=None):
    repo = repo or core.REPO
    src = cxx.strip_comments(open(os.path.join(repo, SRC_P)).read())
    ts = open(os.path.join(repo, SRC_T)).read()
    funcs = load_prepends(src)
    refused = []
    out = ['(* GENERATED by vlib/gen_prepend.py from %s and %s of the working tree. *)' % (SRC_P, SRC_T),
           'From Coq Require Import List Bool String.', 'Import ListNotations.', 'Require Import RowProg.',
           'Local Open Scope string_scope.', '']
    progs = []
    for name, f in funcs.items():
        if name in ('prepend_pauli_product',):
            continue
        try:
            ops = expand(funcs, name, ['1', '2'][:len(f.params)])
            progs.append((name[len('prepend_'):], len(f.params), ops))
        except cxx.Refuse as e:
            refused.append((name, str(e)))
    out.append('Definition prepend_programs : list (string * nat * list rop) := [')
    out.append(';\n'.join('  ("%s", %d, [%s])' % (n, ar, '; '.join(ops)) for n, ar, ops in progs))
    out.append('].')
    # single_cx / single_cy quantum branches
    singles = {}
    for nm in ('single_cx', 'single_cy'):
        got = list(cxx.function_bodies(ts, r'void TableauSimulator<W>::%s\(uint32_t c, uint32_t t\)\s*\{' % nm))
        try:
            if len(got) != 1:
                raise cxx.Refuse('definition not found')
            qb = quantum_branch(cxx.strip_comments(got[0][1]), 'c', 't')
            if qb is None:
                raise cxx.Refuse('quantum branch not found')
            sts = cxx.statements(qb[1])
            mm = re.fullmatch(r'inv_state\.(prepend_\w+)\((\w+), (\w+)\)', ' '.join(sts[0].split())) if len(sts) == 1 else None
            if not mm:
                raise cxx.Refuse('quantum branch shape')
            singles[nm] = (mm.group(1), [mm.group(2), mm.group(3)])
        except cxx.Refuse as e:
            refused.append((nm, str(e)))
    # dispatch
    disp = []
    other = []
    got = list(cxx.function_bodies(ts, r'void TableauSimulator<W>::do_gate\(const CircuitInstruction &inst\)\s*\{'))
    try:
        if len(got) != 1:
            raise cxx.Refuse('do_gate not found')
        body = got[0][1]
        sw = re.search(r'switch\s*\(inst\.gate_type\)\s*\{', body)
        if not sw:
            raise cxx.Refuse('switch not found')
        ob = sw.end() - 1
        cb = cxx.match_brace(body, ob)
        bodies = {}
        for m, b in cxx.function_bodies(ts, r'void TableauSimulator<W>::(do_\w+)\(const CircuitInstruction &\w+\)\s*\{'):
            bodies[m.group(1)] = b
        for gate, stmts in cxx.switch_table(body[ob + 1:cb]):
            m = re.fullmatch(r'(do_\w+)\(inst\)', stmts[0]) if stmts else None
            if not m or m.group(1) not in bodies:
                other.append((gate, stmts[0].split('(')[0] if stmts else 'noop'))
                continue
            try:
                ops = sim_routine(m.group(1), bodies[m.group(1)], funcs, singles)
                disp.append((gate, m.group(1), ops))
            except cxx.Refuse as e:
                other.append((gate, m.group(1)))
                disp_refusals.append((gate, m.group(1) + ': ' + str(e)))
    except cxx.Refuse as e:
        refused.append(('do_gate', str(e)))
    out.append('(* gate -> composite row program its do_* routine prepends onto the inverse tableau (quantum targets) *)')
    out.append('Definition tabsim_dispatch : list (string * string * list rop) := [')
    out.append(';\n'.join('  ("%s", "%s", [%s])' % (g, fn, '; '.join(ops)) for g, fn, ops in disp))
    out.append('].')
    out.append('Definition tabsim_dispatch_other : list (string * string) := [%s].' % '; '.join(
        '("%s", "%s")' % (g, r) for g, r in other))
    out.append('Definition tabsim_dispatch_refusals : list (string * string) := [%s].' % '; '.join(
        '("%s", "%s")' % (n, r.replace('"', "'")) for n, r in disp_refusals))
    del disp_refusals[:]
    out.append('Definition prepend_refused : list (string * string) := [%s].' % '; '.join(
        '("%s", "%s")' % (n, r.replace('"', "'")) for n, r in refused))
    core.write_if_changed(os.path.join(core.COQ, 'Gen_Prepend.v'), '\n'.join(out) + '\n')
    return {'prepend_routines': len(progs), 'dispatch': len(disp), 'other': other, 'refused': refused}


disp_refusals = []
