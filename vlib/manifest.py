"""Regenerates /verif/MANIFEST.json from the table below:  python3 -m vlib.manifest"""
import json
import os

TB = ('Trusted: Coq 8.16.1 kernel (vm_compute used, no native_compute; no axioms: every property theorem prints '
      '"Closed under the global context"), the C++-subset translators in vlib/ (tie G), extraction with ExtrOcamlBasic only '
      '+ runner/main.ml glue, harness/*.cc, and the Python drivers that generate cases and diff canonical outputs.')

CHECKS = {
    'C12': dict(
        technique='Coq proof over a model regenerated from pauli_string_ref.inl (translator) + differential correspondence '
                  'with the extracted table action',
        text='Proof (tie G): every PauliStringRef do_* routine and both dispatch switches are translated to Gallina on each '
             'run; Coq proves each routine equals the gate table action with sign on all local inputs, lifted to strings of '
             'any length and any target list (run1_ext/run2_ext); the table action is proved to be conjugation by the '
             'documented unitary (exact Z[sqrt2,i] arithmetic) and a phase-exact homomorphism (conj1_hom/conj2_hom); product '
             'phase table = true power of i (hmul_log_i_is_ph). Tie H: after/before/products/commutation/order/text of the '
             'real PauliStringRef<64/128/256> are diffed against the extracted model incl. word-boundary positions.',
        note=TB + ' Refusal rules at measurements/resets/noise and the comparison order are differential tests against a '
                  'transcription of the documented rule, not theorems. undo with several target pairs in order is covered '
                  'by correspondence only.',
        design='§4 C12'),
}

PENDING = 'check not yet built in this round (see DESIGN.md §7 phasing); the Coq model for it is planned, not claimed'


def main():
    here = os.path.dirname(os.path.dirname(os.path.abspath(__file__)))
    ids = [json.loads(l)['id'] for l in open(os.path.join(here, 'properties.jsonl'))]
    checks = []
    for pid in ids:
        if pid not in CHECKS:
            continue
        c = CHECKS[pid]
        checks.append({
            'property_id': pid,
            'quick_cmd': './check %s quick' % pid,
            'thorough_cmd': './check %s thorough' % pid,
            'evidence_file': '/verif/evidence/%s.json' % pid,
            'replay_cmd_template': './check %s --replay {path}' % pid,
            'engine': 'check',
            'level_claimed': {'category': 'proof', 'text': c['text'], 'design_ref': c['design']},
            'level_note': c['note'],
            'technique': c['technique'],
        })
    m = {
        'version': 1,
        'setup_cmd': './check setup',
        'hooks': {
            'guard': 'STIM_VERIF_HOOKS',
            'enable': 'harness/Makefile compiles every source listed in /repo/file_lists/source_files_no_main from the '
                      'working tree with -DSTIM_VERIF_HOOKS into /verif/_build/{o1,asan}',
            'baseline_off_cmd': 'cd /repo && cmake --build _build -j 16 && ctest --test-dir _build -j8 --timeout 900',
            'source_commits': [],
            'add_only': True,
        },
        'engines': [{
            'name': 'check', 'path': '/verif/check', 'serves_properties': sorted(CHECKS),
            'kind_free_text': 'Coq 8.16 development (coq/), C++-subset -> Gallina translators (vlib/), C++ harness built from '
                              'the working tree (harness/), extracted OCaml model runner (runner/), Python drivers (checks/)',
        }],
        'checks': checks,
        'notes': 'One entry point: ./check Cxx quick|thorough. Every run regenerates coq/Gen_*.v from /repo, rebuilds the '
                 'implementation incrementally from the working tree, re-proves the property file and runs the '
                 'correspondence suites. known_findings.json lists genuine defects (known/fixed).',
        'not_applicable': [{'property_id': p, 'reason': PENDING} for p in ids if p not in CHECKS],
    }
    json.dump(m, open(os.path.join(here, 'MANIFEST.json'), 'w'), indent=1)
    print('MANIFEST.json: %d checks, %d not claimed' % (len(checks), len(m['not_applicable'])))


if __name__ == '__main__':
    main()
