"""Regenerates /verif/MANIFEST.json from the table below:  python3 -m vlib.manifest"""
import json
import os

TB = ('Trusted: Coq 8.16.1 kernel (vm_compute used, no native_compute; no axioms: every property theorem prints '
      '"Closed under the global context"), the C++-subset translators in vlib/ (tie G), extraction with ExtrOcamlBasic only '
      '+ runner/main.ml glue, harness/*.cc, and the Python drivers that generate cases and diff canonical outputs.')

CHECKS = {
    'C12': dict(
        technique='Coq proof over a model regenerated from pauli_string_ref.inl (translator) + differential correspondence '
                  'with the extracted table action',
        text='Proof (tie G): every PauliStringRef do_* routine and both dispatch switches are translated to Gallina on each '
             'run; Coq proves each routine equals the gate table action with sign on all local inputs, lifted to strings of '
             'any length and any target list (run1_ext/run2_ext); the table action is proved to be conjugation by the '
             'documented unitary (exact Z[sqrt2,i] arithmetic) and a phase-exact homomorphism (conj1_hom/conj2_hom); product '
             'phase table = true power of i (hmul_log_i_is_ph). Tie H: after/before/products/commutation/order/text of the '
             'real PauliStringRef<64/128/256> are diffed against the extracted model incl. word-boundary positions. The refusal conditions at measurements, resets and MPP are regenerated from source and proved to be anticommutation with the documented basis (GenProofs_Avoid).',
        note=TB + ' Refusal rules at measurements/resets/noise and the comparison order are differential tests against a '
                  'transcription of the documented rule, not theorems. undo with several target pairs in order is covered '
                  'by correspondence only.',
        design='§4 C12'),
    'C01': dict(
        technique='Coq proofs (collapse refinement, tableau homomorphism, generated prepend/dispatch obligations, verified GF(2) '
                  'oracle) + oracle correspondence of the real TableauSimulator against the extracted specification',
        text='Proof: (G) all Tableau::prepend_* row programs and the unitary part of TableauSimulator::do_gate are regenerated from '
             'source and proved to realise the gate table action / its inverse; (H) the collapse step of collapse_qubit_z is modelled '
             'and proved to refine the specification\'s random-measurement rule for any tableau size (collapse_local_at, '
             'collapse_refines_measure, spec_measure_group_char, eval_hom, central_is_scalar); (O) every record, peek/is_deterministic/'
             'expectation answer and measure-after-peek of the real simulator (3 widths, index straddling 64/128/256, all gates, '
             'feedback, MPP/SPP, REPEAT, `!`) must be a solution of the specification\'s symbolic sign forms, decided by the verified '
             'GF(2) solver (sound+complete); free measurements must take both values. Reference samples through the loop-folding path (ReferenceSampleTree, REPEAT >= 10 with the record replayed for skipped iterations, feedback looking back across the loop, pre-loop results that differ from the periodic content) must solve the forms of the unrolled circuit. TableauSimulator measurement / reset routines, collapse wrappers and pair-measurement segments are regenerated from source (GenProofs_TabMeas); the hand model coq/Mpp.v of gate_decomposition.cc (MPP, SPP, pair segments, reversed segments) is extracted and run against the real functions on the same instructions, and MppProofs proves that every flushed block measures each of its (pairwise disjoint) products with the right sign, for products of any size. Whole runs: Run.run_refines (any sequence of Clifford steps and Hermitian measurements refines the predicate semantics), TableGood (every table unitary is such a step), ConjMeas (measurement through a basis change), ResetRun; RunComplete.run_complete is the converse (the simulator can report every record the semantics allows, so its reportable records are exactly the legal ones). SpecSem: the executable specification behind the oracle is itself proved sound for the predicate semantics - measurement (both branches), controlled Paulis, table gates, initial state, and whole circuits over these primitives under every assignment of the variables (SpecSemFull.spec_circuits_sound_unconditional; the completeness of its GF(2) elimination is Elim.elimination_complete), and complete: every legal record is the evaluation of the outcome forms under some assignment (SpecComplete.spec_complete_oracle).',
        note=TB + ' Whole runs are proved to refine the predicate-level semantics at the level of maps on Paulis (Run.run_refines: any sequence '
                  'of Clifford maps and Hermitian measurements, any coins); that each table gate lifts to such a map on XZ-form strings '
                  'and that the C++ collapse_qubit_z is the modelled collapse Clifford are tied by the generated per-gate obligations and '
                  'the oracle correspondence, not by one theorem about the C++ text. The stabilizer measurement rule for n>2 qubits is '
                  'the standard update rule (DESIGN section 6). SpecSem covers the specification\'s state-changing primitives; record inversion, MPAD, detectors, observables and probes are bookkeeping on forms (SpecProofs) and Spec.sstep\'s use of the primitives is definitional (sstep lemmas), not one theorem about Spec.srun.',
        design='§4 C01'),
    'C02': dict(
        technique='Coq proofs (frame laws, generated frame-routine obligations, uniform fibres, loop folding) + oracle correspondence '
                  'and exact byte comparison on the bulk sampler',
        text='Proof: (G) every unitary FrameSimulator routine and its dispatch is regenerated from source and proved equal to the '
             'unsigned table action; its measurement / reset routines are executed symbolically from source and proved to record '
             'omega(basis, frame), to keep / clear exactly the anticommuting component and to randomise along the basis only '
             '(GenProofs_FrameMeas); frame laws frame_meas_det / frame_post_rnd / frame_extra_commuting / post_rnd_other_outcome / '
             'shift_stab at the predicate level; fibers_equal (uniformity on the affine space); fold_loop_correct (compressed '
             'reference sample). (O) every bulk shot is checked against the specification with the verified solver; 4096-shot runs '
             'check unbiasedness at 7 sigma and uniformity over the 2^r reachable records; outcome-deterministic circuits must give '
             'bytes identical to the documentation encoder through in-memory and forced-streaming paths, 6 formats, shot counts across '
             'batch boundaries, 3 widths, tableau vs tree reference samples. FrameRun.framed_run_is_legal: every frame-shifted copy of a legal reference run is a legal run, for circuits of any length; pair-measurement segments regenerated from source. FrameComplete.frame_exact: with the initial frame drawn from the stabilizer group of the initial state (products of Z for the zero state) and the frame multiplied by the measured operator under a randomisation bit, the set of records the frame sampler can report equals the set of records the semantics allows on the same operations (soundness for every choice of bits, completeness by some choice), for any number of qubits and operations; the reference run is any run of the inverse-tableau simulator (Run.sim_run), which exists for every operation list (sim_run_exists). FrameProg.fp_exact extends this to adaptive programs: Paulis controlled by an earlier result (feedback, resets as measurement + controlled Pauli, MR) or by an external bit that differs between reference and shot (sweep bits, Pauli noise with fixed fault bits); reset_clears_x: the model sampler\'s reset rule is Stim\'s (no X component left on the qubit). FrameUniform: the reported flips are GF(2)-linear in (initial frame, randomisation bits) also through feedback and resets (flipsp_linear), hence every reachable record has the same number of preimages (shots_uniform, via Uniform.fibers_equal): uniform bits give the uniform distribution on the legal records.',
        note=TB + ' RNG quality (that the bits are uniform and independent) is tested (statistics), not proved. fp_exact is about the model sampler FrameProg.fprun (frame, reference record, own record); that the C++ '
                  'routines implement its per-instruction rules is tied per routine (GenProofs_FrameMeas, Gen_FrameNoise) and by the oracle; heralded and multi-outcome channels are covered only as Paulis with fixed fault bits.',
        design='§4 C02'),
    'C09': dict(
        technique='Coq round-trip proofs for the writer/reader models (r8 incl. write_bytes fast path, b8, 01, hits, decimal, '
                  'transpose) + differential correspondence with the implementation and the documentation encoders, ASan on hostile input',
        text='Proof: r8_roundtrip, r8_write_bytes_eq_write_bits, b8_roundtrip, f01_roundtrip, hits_roundtrip, read_print_dec, '
             'transpose_involutive for the models of the writers/readers as implemented (any record length, any trailing data). '
             'Tie H: the extracted models and the reference encoders from doc/result_formats.md are compared byte for byte with every '
             'writer mode (bit, bytes, table, batch) and every reader entry point (dense, sparse, shot-major, shot-minor, '
             'read_records_into) for 6 formats, 3 widths, widths 0..1030 incl. runs of 247..256 zeros at every alignment; '
             '`stim convert` matrix; hostile/truncated bytes under ASan+UBSan with model-vs-implementation accept/reject verdicts.',
        note=TB + ' dets and ptb64 have no format-level theorem (decimal and transpose lemmas only); memory safety is measured by '
                  'ASan, not proved.',
        design='§4 C09'),
    'C04': dict(
        technique='Coq lemmas on the specification (detector form = XOR of named record forms under every assignment) + oracle '
                  'correspondence on same-run tables, m2d and the CLI option matrix',
        text='Proof: FrameSimulator measurement / reset routines regenerated from source record omega(basis, frame) (GenProofs_FrameMeas); parity_form_is_xor_of_values (for every assignment of coins/faults/sweeps a detector or observable form evaluates '
             'to the XOR of the measurement values it names), detector/observable step lemmas, generated frame-routine obligations. '
             'Tie O: in one run of the real FrameSimulator (STORE_EVERYTHING_TO_MEMORY) every detector/observable row is recomputed '
             'from that run\'s measurement-flip rows at the index sets the specification assigns; m2d on random measurement and sweep '
             'tables must give parity(measured) xor the specification\'s noiseless parity under the same sweep bits (with and without '
             'skip_reference_sample, appended observables); detect option matrix {append, prepend, obs_out, plain} x 6 formats x shot '
             'counts decodes to identical bits; deterministic detection data identical in memory vs forced streaming. `stim m2d --ran_without_feedback` is decided by an oracle that does not use the implementation\'s inlining: the record controls become variables of the specification, the coefficient matrix A (result j flips result k) maps data taken without feedback to the record m = m\' + A m of the circuit with feedback, and the events must be the original circuit\'s detectors on m (feedback pairs mixed with ordinary pairs in one instruction, adjacent lines the parser fuses). RevProg.detector_in_every_shot: on whole adaptive programs a shot\'s detector value is the reference value xor the anticommuting faults.',
        note=TB + ' OBSERVABLE_INCLUDE Pauli targets are not exercised here.',
        design='§4 C04'),
    'C03': dict(
        technique='Coq proofs (generated reverse-tracker obligations, adjointness for the whole gate set, probability algebra over Q) + '
                  'oracle correspondence: characteristic functions of the DEM vs the specification with fault variables',
        text='Proof: (G) every unitary undo_* routine of SparseUnsignedRevFrameTracker and its dispatch is regenerated from source and '
             'proved to be the unsigned action of the table\'s inverse gate; adjoint (backward sensitivity = forward fault propagation, '
             'any circuit over every unitary of the generated gate table, single-qubit Pauli measurements and resets, any n: AdjGen.adjoint_all_gates + TableAdj.table_adjoint; the measurement / reset undo routines of the tracker and of the analyzer itself, regenerated from source, are that theorem\'s backward steps for the documented basis: GenProofs_RevMeas; the analyzer\'s noise routines incl. the PAULI_CHANNEL_2 index arithmetic flip exactly the detectors anticommuting with the documented Pauli of each argument: GenProofs_EaNoise); xor_convolution_merge, conv_comm, depolarize1_independent over Q. Tie O: one symbolic '
             'run of the specification with a fault variable per elementary fault gives every channel outcome\'s symptom set; the '
             'implementation\'s model must define the same joint distribution, compared through E[(-1)^(s.x)] on all unit vectors, '
             'pairs and random vectors (exact to 1e-7; with approximate_disjoint_errors within the first-order bound 2*P^2 per '
             'approximated channel); rejections (non-deterministic detector/observable, channels needing the approximation, '
             'over-mixing) must match the specification; options fold_loops / allow_gauge_detectors / approximate_disjoint_errors. Rejection clause: a non-deterministic observable (also one sharing its anticommuting set with a gauge detector) must be refused whether or not gauge detectors are allowed. The probability folding of add_error is translated to Q and proved equal to the merge rule by ring (GenProofs_AddError); MPP / SPP entry points of the backward classes are tied from source and MppRev proves the reversed target list is the reversed products with the same content. RevTrack: along whole runs (any number of Clifford steps and Hermitian measurements) the flip parity of a detector under a Pauli error E is [E, sensitivity] for every frame randomisation when the tracker\'s anticommutation check passes (fparz_is_acom), and such detectors whose start sensitivity commutes with the initial group are deterministic over all legal runs (detector_deterministic, via frame completeness). RevProg extends this to adaptive programs (feedback toggling record flags, resets, sweep and fault bits): detector_in_every_shot - in every legal shot a checked detector equals the reference value xor the parity of the faults whose Pauli anticommutes with its back-propagated sensitivity (the content of a detector error model, to all orders). DemBridge.circuit_shot_is_dem_shot: the model DEM read off by the tracker (error j = detectors anticommuting with fault j) sampled with the shot\'s fault bits gives, detector by detector, the circuit\'s detection events (C03 meets C16).',
        note=TB + ' The analyzer\'s bookkeeping (add_error_combinations, gauge removal, unreversed) is not modelled in Coq; pair and product measurements enter the '
                  'adjointness theorem only through their decomposition. Distribution equality is '
                  'a randomized identity test over test vectors.',
        design='§4 C03'),
    'C06': dict(
        technique='Coq proof of the tortoise-hare fold (generic over any step function with a bisimulation) + comparison of each '
                  'folding engine of the implementation with its own unrolled execution',
        text='Proof: fold_correct and fold_loop_correct: the search/fold procedure as structured in the code (hare every step, '
             'tortoise every second step, skipped periods and leftover iterations) decompresses to the unrolled output for every '
             'repetition count, transient and period. Tie H/O: (a) circuit_to_detector_error_model with fold_loops on/off must '
             'flatten to the same merged errors, probabilities and detector coordinates; (b) the decompressed ReferenceSampleTree must '
             'equal the directly simulated reference sample; (c) SparseUnsignedRevFrameTracker::undo_loop must leave the same state as '
             'undo_loop_by_unrolling -- on loop bodies with random Clifford/measure/reset/MPP content, detectors across iterations, '
             'feedback into and after the loop, SHIFT_COORDS, noise, nested loops, repetition counts 1..257 around every threshold, '
             'and generated code circuits up to 1000 rounds; hangs/crashes are violations.',
        note=TB + ' The bisimulation premise (equal tracked state implies equal future outputs) is not proved for the three engines; '
                  'they are tied by the differential comparison.',
        design='§4 C06'),
    'C15': dict(
        technique='Coq proof of the saturating count arithmetic over arbitrarily nested REPEAT blocks + correspondence of every '
                  'loop-aware query with an interpreter of the unrolled stream and of API-call histories under ASan',
        text='Proof: add_saturate/mul_saturate exactly as written (mod 2^64 + test) equal min(.,2^64-1) and flat_count_operations over '
             'any nesting equals min(exact unrolled count, 2^64-1) (counts_eq_unrolled_saturating); the fast-forward algorithm of '
             'get_final_qubit_coords (run a REPEAT body once, advance coordinates and shift by (reps-1) gains) equals executing the '
             'unrolled program for every program, nesting and repetition count (QCoords.ffl_is_unrolled). Tie H: the extracted models are '
             'compared with the implementation for repeat counts up to 2^63 (counts) and 2^40 (coordinates); every loop-aware Circuit and DetectorErrorModel query '
             '(counts, max lookback, compute_stats, final coordinate shift, final qubit coordinates incl. repeated qubits, detector '
             'coordinates, total detector shift) against an interpreter executing the unrolled stream on random nested programs; '
             'histories of 3-14 mutating API calls (+, +=, *, *=, insert, insert/append repeat block with tags, append text, slices, '
             'copy, assign, clear, destroy, self operands) for circuits and models under ASan, comparing flattened streams. Sparse multi-index detector-coordinate queries are compared with the unrolled stream; compute_stats fields are compared with the Counts model for huge repeat counts.',
        note=TB + ' Ownership of spans is checked on the real heap by ASan (no Coq ownership model); coordinate arithmetic is compared '
                  'on small integers; the expected flattened text is canonicalised by the implementation\'s own parser.',
        design='§4 C15'),
    'C07': dict(
        technique='Coq proofs for the grammar components (tags, integers, gate targets, perfect name hash over the generated table) + '
                  'correspondence of the real parser/printer with the intended structure, rejection rules, fuzzing under ASan',
        text='Proof: tag_roundtrip and tag_output_bounded (escape/unescape for every byte string, reader total and bounded by its input), '
             'read_print_dec, read_write_target / read_u24_print (every target kind, 24-bit limit), targets_roundtrip (whole target lists: write_targets then read_arbitrary_targets_into, combiners anywhere, any length), table_hash_perfect (gate_name_to_hash '
             'with multipliers regenerated from gates.h is collision-free on all names and aliases of the generated table). Tie H: the extracted target-list reader/printer against the real '
             'ones on lists with irregular spacing, comments and malformations (accept/reject and parsed values must agree); '
             'structured circuits over every gate of the table with aliases, mixed case, whitespace, comments, CRLF, 63-bit repeat '
             'counts, escaped tags and fusable neighbours through the string/file/stop_asap entry points must parse to the intended '
             'structure, print, re-parse equal to six digits and then round trip exactly; API-built circuits with arbitrary tag bytes '
             'and extreme arguments; 57 rejection rules; mutation/truncation/random-byte fuzz under ASan with a 20 s limit per input; '
             'object reuse after rejected appends; memory growth on inputs of size n, 2n, 4n. The decimal readers read_uint24_t / read_uint63_t are regenerated from source and proved not to wrap modulo the machine word before their limit test (GenProofs_IntRead); numbers past every limit, including those that wrap back into range modulo 2^32 / 2^64, must be rejected.',
        note=TB + ' The full grammar is not modelled in Coq (components are); number formatting (printf %g/strtod), memory safety and '
                  'memory growth are measured, not proved. Known finding D14 (non-finite arguments print but do not parse).',
        design='§4 C07'),
    'C08': dict(
        technique='Coq proof that recursive flattening equals naive execution of the unrolled model + correspondence of the real '
                  'parser/printer/flatten, bit-exact double round trips, rejection rules, fuzzing under ASan',
        text='Proof: flatten_is_naive_execution (flattened_helper / iter_flatten_error_instructions_helper with a running detector '
             'offset through nested repeat blocks = unrolling then executing one instruction at a time; any nesting, counts, offsets), '
             'tag and decimal round trips shared with C07; dtargets_roundtrip / read_u60_print (whole target lists D<n> L<n> ^ through operator<< and read_arbitrary_dem_targets_into with the 2^60 limit). Tie H: the extracted target-list reader/printer against the real ones (irregular spacing, comments, letter case, malformations); random models (repeat to 2^59, shifts, separators, escaped tags, 60-bit '
             'ids, awkward doubles incl. subnormals) through string/file parsers: intended structure and bit-exact print/parse round '
             'trip; 28 rejection rules; fuzz under ASan; flattened() and iter_flatten_error_instructions against the extracted model. read_uint60_t is regenerated from source and proved not to wrap before its limit test (GenProofs_IntRead).',
        note=TB + ' The DEM parser is not modelled beyond tags, integers and target lists; coordinate shifts are checked by C15\'s interpreter, not in DemFlat.',
        design='§4 C08'),
    'C16': dict(
        technique='Coq proof that a sampled shot is the parity of the fired errors\' targets (+ flatten = naive execution, equal fibres) + '
                  'per-shot oracle on the real sampler and its files, replay, 7-sigma statistics',
        text='Proof: dem_shot_is_xor_of_fired (toggling model of resample = odd-count definition; duplicates cancel, separators ignored), '
             'flatten_is_naive_execution, fibers_equal. Tie H/O: for random models every shot in DemSampler<W>\'s buffers and in the '
             'files written by `stim sample_dem` (all det/obs/err formats, shot counts across stripe boundaries) is recomputed from the '
             'recorded error bits and the absolute errors of the extracted DemFlat model; replay through every input format must '
             'reproduce the bits; p=0/1 errors never/always fire; firing frequencies and pairwise independence at 7 sigma. The resample loop is regenerated from source (GenProofs_DemSampler).',
        note=TB + ' RNG quality and exact probabilities (float rounding of p) are tested statistically, not proved (C05 covers the '
                  'sampling primitives).',
        design='§4 C16'),
    'C17': dict(
        technique='Coq proofs of the graph theory behind graphlike minimality (cycle lemma, simple cycles, state-path lower bound, '
                  'BFS optimality) + exhaustive-minimum oracle on the real searches and WCNF export',
        text='Proof: cycle_lemma, simple_exists, graphlike_lower_bound (any undetectable logical error of graph edges yields a path of '
             'the search\'s (active, held, mask) state graph of length <= |E|-1 from a non-zero-mask edge in either orientation) and '
             'bfs_nearest (the queue BFS as written returns a nearest goal). Tie O: on random small models (boundary and parallel edges, '
             'cancelling duplicate targets, separators, zero-probability errors, 70 observables, repeat/shift) the graphlike search and '
             'the untruncated hypergraph search must return valid error sets of exactly the exhaustive minimum size and fail only when '
             'none exists; truncated searches must return valid sets; the unweighted WCNF must be well formed and have the exhaustive '
             'optimum equal to the minimum number of errors. Graph construction of the graphlike search is regenerated from source and GraphEdges.collect_is_symptom proves the held detectors are the component\'s symptom however it is written.',
        note=TB + ' Graph::from_dem and the hypergraph search are not modelled in Coq; the instantiation of bfs_nearest with the '
                  'search\'s successor function is not assembled; the weighted WCNF is only checked for well-formedness. With '
                  'ignore_ungraphlike_errors the implementation skips errors that carry a suggested decomposition; that reading is '
                  'taken as the definition.',
        design='§4 C17'),
    'C19': dict(
        technique='generated circuits checked as data by the Coq-extracted specification (determinism = no coin dependence of every '
                  'detector/observable form) + parser round trip, closed-form counts, graphlike distance, parameter rejection',
        text='On every run each circuit of the (code, task, distance, rounds, noise subset) grid is regenerated by the working tree\'s '
             '`stim gen`, parsed and executed by the specification Spec.srun: every DETECTOR and OBSERVABLE_INCLUDE form must have zero '
             'coin part (proved to mean the same value under every coin assignment); the text must equal the canonical print of its own '
             'parse; detector/observable/measurement counts must match the closed forms in (d, rounds); for repetition and surface '
             'memory tasks with all four noise parameters on, the shortest graphlike undetectable logical error must have exactly d '
             'errors; invalid parameter combinations must be rejected. The documented parameter ranges are checked as a grid (distance, rounds, probabilities). RevTrack.detector_deterministic_zero_state proves the determinism criterion sound for Clifford + measurement runs of any length.',
        note=TB + ' The generators are not transcribed into Gallina: the claim is per grid point (exhaustive over the stated grid), not '
                  'for all distances and round counts; the distance uses the implementation\'s graphlike search (validated by C17).',
        design='§4 C19'),
    'C20': dict(
        technique='Coq proof of the 64x64 block transpose over passes regenerated from simd_util.cc + differential sweep of every '
                  'kernel against bit-by-bit definitions and across word widths',
        text='Proof: transpose64_correct for inplace_transpose_64x64 exactly as written (uint64 semantics), with the six (mask, shift) '
             'passes and the pass body read from the source on every run (generated_transpose64_correct); transpose_involutive for '
             'rectangular tables. Tie H: extracted model vs implementation on random/basis 64x64 blocks; transposed, transpose_into, '
             'do_square_transpose, slice_maj, concat_major, resize, read_across_majors, square_mat_mul, inverse_assuming_lower_triangular '
             'and the simd_bits operators/popcount/countr_zero/intersects/subset/truncated copy/clear_bits_past/invert/resize/masked '
             'randomize against bit-by-bit definitions for W in {64,128,256} on shapes covering every residue class; identical '
             'Tableau, TableauSimulator and circuit<->tableau computations under the three widths. Sparse lower-triangular matrices with bits at and next to word boundaries are inverted.',
        note=TB + ' Only the 64x64 kernel is proved; the 128/256-bit inplace_transpose_square (intrinsics) and the other kernels are tied '
                  'by the differential sweep whose reference loops live in the harness.',
        design='§4 C20'),
    'C11': dict(
        technique='Coq proofs (tableau = phase-exact homomorphism, generated prepend obligations, table inverse/automorphism checks) + '
                  'recomputation of every algebraic operation and conversion from printed operands',
        text='Proof: then_is_composition (the tableau whose rows are B applied to A\'s rows acts as A followed by B, phases included, any n); eval_hom (T(PQ)=T(P)T(Q) with phases for any valid tableau of any size), prepend_generated_programs_match_table '
             '(every Tableau::prepend_* regenerated from source realises the gate table action), table_inverse_is_inverse, '
             'table_actions_are_automorphisms, A0inv_A0/A0_A0inv. Tie H/O: for random tableaus (sizes straddling 64/128, 3 widths) then, '
             'inverse, raised_to (negative and huge exponents), operator+, operator(), scatter append/prepend are recomputed from the '
             'printed rows with the XZ-form Pauli product (cross-checked against the extracted Coq product each run) and validity of '
             'every result is re-derived; circuit_to_tableau vs the extracted gate action; all four synthesis methods (exact tableau or '
             'same stabilizer state); Circuit::inverse; unitary-matrix and state-vector round trips (n<=4, both endiannesses); '
             'stabilizers_to_tableau on valid, redundant, under-constrained, anticommuting and contradictory lists.',
        note=TB + ' then/inverse/raised_to/scatter and the synthesis algorithms are not modelled in Coq (tied by recomputation); '
                  'amplitude conversions are float round trips.',
        design='§4 C11'),
    'C18': dict(
        technique='oracle: every reported location is re-simulated in the Coq-extracted specification with a fault variable; lemmas on '
                  'affine forms and adjointness',
        text='Proof: forms are affine and detector forms are XORs of record forms under every assignment (so the detectors flipped by '
             'one injected fault are exactly those whose form contains its variable); adjoint_all_gates (whole gate set) with the regenerated measurement / reset undo routines of tracker and analyzer as its backward steps (GenProofs_RevMeas). Tie O: for random '
             'annotated noisy circuits (all channel kinds, measurement noise, heralded channels, ELSE chains, feedback, MPP, nested '
             'REPEAT, TICKs) every location returned by ErrorMatcher::explain_errors_from_circuit is mapped through its stack frames '
             'to a position of the unrolled circuit; the reported Pauli product is injected there (or the reported measurement result '
             'is flipped as later feedback sees it) in Spec.srun and must flip exactly the error\'s detectors/observables; gate name, '
             'target range and tick must identify that position; every error of the model (or filter) must have a location. Caller-supplied filter models (subsets, separators, cancelling repeated targets) are used besides the circuit\'s own model. RevTrack.error_flips_iff_anticommutes: on whole runs an injected Pauli flips exactly the detectors whose back-propagated sensitivity it anticommutes with. RevProg.detector_in_every_shot covers feedback, resets and several simultaneous faults.',
        note=TB + ' The matcher\'s bookkeeping is not modelled in Coq; reported coordinates are compared with the circuit\'s coordinate queries (C15).',
        design='§4 C18'),
    'C14': dict(
        technique='oracle: flows decided on the Choi state of the Coq-extracted specification; theorems on flow groups (Tab.eval homomorphism), '
                  'generated reverse-tracker obligations, adjointness, measurement update of stabilizer groups',
        text='Proof: flows of a Clifford map are closed under products with exact signs, functional in the input and generated by the '
             '2n row flows (Flow.v over Tab.eval_hom, any n); every undo routine of SparseUnsignedRevFrameTracker regenerated from source '
             'is the inverse gate\'s unsigned action; adjoint_all_gates (whole gate set) and the regenerated measurement / reset undo routines as its backward steps (GenProofs_RevMeas); Span.spec_measure_group_char. Tie O: for random noiseless circuits (all '
             'gates, resets, measurements incl. pair/product, feedback) one Bell pair per qubit is prepared in Spec.srun, the circuit is '
             'applied to one half and a flow P -> Q xor rec[M] holds iff P^T (x) Q is determined and its sign form plus the record forms '
             'of M is the constant of the flow\'s sign (mask 0 for unsigned). Checked: every generator returned by flow_generators is a '
             'flow, generators are independent and span the complete flow basis read off the final Choi stabilizers; '
             'sample_if_circuit_has_stabilizer_flows and check_if_circuit_has_unsigned_stabilizer_flows agree with the oracle on '
             'generators, products, near misses (one Pauli/sign/measurement changed) and random flows; solve_for_flow_measurements '
             'answers make the flow true and "no solution" only when none exists. Flows whose Pauli strings are longer or shorter than the circuit are queried; solve_for_flow_measurements must answer each flow the same alone and inside a batch. RevFlow.flow_closed_form: on whole adaptive programs the reverse walk from an end observable decides the unsigned flow (which Pauli errors before the program change the observable times the flagged results).',
        note=TB + ' The flow solver is not modelled in Coq; obs[...] terms are not generated.',
        design='§4 C14'),
    'C13': dict(
        technique='translator (simplifier decomposition tables -> Gallina, proved equal to the gate table) + oracle: original and rewritten '
                  'circuit compared in distribution on the Choi state of the Coq-extracted specification via the verified GF(2) solver',
        text='Proof (tie G): every case of Simplifier::simplify_disjoint_1q/2q_instruction is regenerated from simplified_circuit.cc as a list '
             'of emitted gates; simp_all_ok = true by vm_compute: unitary entries compose to the table action with exact signs (lifted to '
             'strings and target lists of any length), measurement entries conjugate the measured observable onto +Z of the measured qubit '
             'and back and keep arguments and result inversion, reset entries prepare the documented state, every fixed-action gate is '
             'covered. table_inverse_is_inverse; Equiv.affine_image_included (span memberships => inclusion of outcome sets); solver '
             'soundness/completeness. Tie O: random circuits (all gates, aliases, inverted/overlapping targets, pair and product '
             'measurements, feedback, sweep controls, nested REPEAT, every noise channel, tags, deterministic annotations) x '
             'decomposed/flattened/inverse/without_noise/without_tags/with_inlined_feedback/time_reversed_for_flows: original and result '
             'run on one Bell pair per qubit in Spec.srun with identical fault/sweep variables; (record, detectors, observables, final '
             'stabilizer signs) must be equal in distribution for every value of the shared variables (only detectors/observables for '
             'inlined feedback); noise processes identical; structural demands per rewrite; reversed flows re-checked on the Choi state. The simplifier\'s cutting of an instruction into pieces without repeated qubits is regenerated from source and is Segs.segs1 / segs2 (pieces concatenate to the instruction, none repeats a qubit). RevFlow.flow_closed_form: on whole adaptive programs the reverse walk from an end observable decides the unsigned flow (which Pauli errors before the program change the observable times the flagged results).',
        note=TB + ' The rewriting code other than the decomposition tables is tied by the oracle only; coordinates are compared through the coordinate queries tied by C15.',
        design='§4 C13'),
    'C10': dict(
        technique='oracle over the real analyzer output with theorems on reading decomposed models (Decomp.v: XOR of components, permutation '
                  'and merge invariance of the mechanism distribution)',
        text='Proof: a decomposition whose components XOR to the undecomposed symptoms defines, read without separators, the same '
             'distribution (any number of errors/components); the distribution of independent mechanisms is invariant under permutation, '
             'merging of equal symptom sets with p(1-q)+q(1-p), dropping of zero/empty mechanisms (so comparing canonical forms is sound); '
             'a mis-decomposed error is distinguishable (non-vacuity). Tie O: for stabilizer-round circuits with random 1-4 qubit channels, '
             'stim gen codes and random annotated noisy circuits, with every combination of fold_loops / ignore_decomposition_failures / '
             'block_decomposition_from_introducing_remnant_edges, the decomposed model is read back: component XORs merged must equal '
             'the model produced without decomposition (1e-9 relative), every component has at most two detectors unless failures are '
             'ignored (and then the error is left whole), with blocking every component of a split error occurs elsewhere in the model; '
             'a raise must be the documented decomposition failure and never occurs when failures are ignored.',
        note=TB + ' The decomposition heuristics are not modelled in Coq; the undecomposed model is tied to the specification by C03.',
        design='§4 C10'),
    'C05': dict(
        technique='hand model of the coin stage of biased_randomize_bits, proved (exhaustively per lane, lifted to words) and run against the '
                  'implementation on the generator\'s own words; theorems on truncation correction, gap sampling and conditional chains; '
                  'exact outcome distributions from the Coq-extracted specification compared with histograms of all four samplers at 6.5 sigma',
        text='Proof: exactly p_top_bits of the 256 coin strings give 1 for every p_top_bits < 128 (vm_compute over all strings), and every bit '
             'lane of the executable word model CoinWord.coin_word is that stage (N.testbit lemma); truncation correction restores p; '
             'geometric gap sampling is Bernoulli under the geometric-law hypothesis; the conditional-probability chain gives outcome k '
             'probability exactly p_k; DEPOLARIZE1 as three independent mechanisms; the bulk sampler\'s X/Y/Z_ERROR and DEPOLARIZE1/2 routines '
             'regenerated from source flip the documented Paulis, p = 1 + rng() % K mapping bijectively onto the non-identity Paulis '
             '(GenProofs_FrameNoise); PAULI_CHANNEL argument decoding and the conditional-probability expression (GenProofs_PauliChan); '
             'HERALDED_ERASE bit usage: every erasure uses two generator bits no other erasure uses (GenProofs_Herald); the E / ELSE_CORRELATED_ERROR step of both simulators regenerated from source is the modelled chain rule (GenProofs_ElseChain). Tie H (exact): for probabilities top/256 and '
             'complements the extracted brb_exact reproduces the words biased_randomize_bits writes from the same mt19937_64 words. '
             'Statistical ties (fixed seeds): bit / lane / adjacent-pair / position frequencies over the grid {0, 1e-4, 0.0199, 0.02, 0.3, '
             '0.5, 0.51, 0.75, 0.9375, 1, ...}; hit statistics of sample_hit_indices; for every noise instruction the exact outcome pmf '
             'of a probe circuit (Bell-pair decoding of X and Z parts, heralds, flipped results) from Spec.srun + channel tables versus '
             'histograms of sample_batch_measurements, TableauSimulator, sample_batch_detection_events and DemSampler (against the pmf '
             'of its model), all W, shot counts not multiples of 64; impossible outcomes must never occur. The arithmetic of biased_randomize_bits is translated to Q and the truncated part OR the correcting pass is proved to have exactly the requested probability (GenProofs_Brb, by field); PAULI_CHANNEL wrappers save and restore the enclosing chain state (tied from source); chains with other noise between their elements are sampled.',
        note=TB + ' Frequencies are tested, not proved: deviations below the stated resolution are invisible; std::geometric_distribution '
             'is assumed geometric.',
        design='§4 C05'),
}

PENDING = 'check not yet built in this round (see DESIGN.md §7 phasing); the Coq model for it is planned, not claimed'


def main():
    here = os.path.dirname(os.path.dirname(os.path.abspath(__file__)))
    ids = [json.loads(l)['id'] for l in open(os.path.join(here, 'properties.jsonl'))]
    checks = []
    for pid in ids:
        if pid not in CHECKS:
            continue
        c = CHECKS[pid]
        checks.append({
            'property_id': pid,
            'quick_cmd': './check %s quick' % pid,
            'thorough_cmd': './check %s thorough' % pid,
            'evidence_file': '/verif/evidence/%s.json' % pid,
            'replay_cmd_template': './check %s --replay {path}' % pid,
            'engine': 'check',
            'level_claimed': {'category': 'proof', 'text': c['text'], 'design_ref': c['design']},
            'level_note': c['note'],
            'technique': c['technique'],
        })
    m = {
        'version': 1,
        'setup_cmd': './check setup',
        'hooks': {
            'guard': 'STIM_VERIF_HOOKS',
            'enable': 'harness/Makefile compiles every source listed in /repo/file_lists/source_files_no_main from the '
                      'working tree with -DSTIM_VERIF_HOOKS into /verif/_build/{o1,asan}',
            'baseline_off_cmd': 'cd /repo && cmake --build _build -j 16 && ctest --test-dir _build -j8 --timeout 900',
            'source_commits': [],
            'add_only': True,
        },
        'engines': [{
            'name': 'check', 'path': '/verif/check', 'serves_properties': sorted(CHECKS),
            'kind_free_text': 'Coq 8.16 development (coq/), C++-subset -> Gallina translators (vlib/), C++ harness built from '
                              'the working tree (harness/), extracted OCaml model runner (runner/), Python drivers (checks/)',
        }],
        'checks': checks,
        'notes': 'One entry point: ./check Cxx quick|thorough. Every run regenerates coq/Gen_*.v from /repo, rebuilds the '
                 'implementation incrementally from the working tree, re-proves the property file and runs the '
                 'correspondence suites. known_findings.json lists genuine defects (known/fixed).',
        'not_applicable': [{'property_id': p, 'reason': PENDING} for p in ids if p not in CHECKS],
    }
    json.dump(m, open(os.path.join(here, 'MANIFEST.json'), 'w'), indent=1)
    print('MANIFEST.json: %d checks, %d not claimed' % (len(checks), len(m['not_applicable'])))


if __name__ == '__main__':
    main()
