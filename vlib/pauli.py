"""Pauli algebra used by the drivers, in the XZ-form of coq/Pauli.v: i^k X^x Z^z with product
(k1,x1,z1)(k2,x2,z2) = (k1 + k2 + 2|z1 & x2|, x1^x2, z1^z2)  (pmul), and tableaus as maps by Tab.eval:
eval T (i^k X^x Z^z) = i^k prod_i T(X_i)^{x_i} prod_i T(Z_i)^{z_i}."""


def popcount(v):
    return bin(v).count('1')


class P:
    __slots__ = ('k', 'x', 'z', 'n')

    def __init__(self, k, x, z, n):
        self.k = k & 3
        self.x = x
        self.z = z
        self.n = n

    @staticmethod
    def from_str(s):
        neg = s.startswith('-')
        body = s.lstrip('+-')
        x = z = 0
        ny = 0
        for i, c in enumerate(body):
            if c in 'XY':
                x |= 1 << i
            if c in 'ZY':
                z |= 1 << i
            if c == 'Y':
                ny += 1
        # Y = i X Z
        return P((2 if neg else 0) + ny, x, z, len(body))

    def __mul__(self, o):
        return P(self.k + o.k + 2 * popcount(self.z & o.x), self.x ^ o.x, self.z ^ o.z, max(self.n, o.n))

    def hermitian_str(self):
        """back to stim's text form; None if the phase is imaginary"""
        ny = popcount(self.x & self.z)
        k = (self.k - ny) & 3
        if k & 1:
            return None
        s = '-' if k == 2 else '+'
        for i in range(self.n):
            xb, zb = (self.x >> i) & 1, (self.z >> i) & 1
            s += '_XZY'[xb + 2 * zb]
        return s

    def commutes(self, o):
        return (popcount(self.x & o.z) + popcount(self.z & o.x)) % 2 == 0


def identity(n):
    return P(0, 0, 0, n)


class Tab:
    def __init__(self, n, xs, zs):
        self.n = n
        self.xs = xs
        self.zs = zs

    @staticmethod
    def from_dump(tokens):
        """tokens: n valid x0 z0 x1 z1 ... (strings)"""
        n = int(tokens[0])
        rows = tokens[2:]
        return Tab(n, [P.from_str(rows[2 * k]) for k in range(n)], [P.from_str(rows[2 * k + 1]) for k in range(n)])

    def apply(self, p):
        r = P(p.k, 0, 0, self.n)
        for i in range(self.n):
            if (p.x >> i) & 1:
                r = r * self.xs[i]
        for i in range(self.n):
            if (p.z >> i) & 1:
                r = r * self.zs[i]
        return r

    def then(self, other):
        return Tab(self.n, [other.apply(r) for r in self.xs], [other.apply(r) for r in self.zs])

    def is_valid(self):
        for i in range(self.n):
            for j in range(self.n):
                if not self.xs[i].commutes(self.xs[j]) or not self.zs[i].commutes(self.zs[j]):
                    return False
                if self.xs[i].commutes(self.zs[j]) == (i == j):
                    return False
        return all(r.hermitian_str() is not None for r in self.xs + self.zs)

    def rows(self):
        return [r.hermitian_str() for pair in zip(self.xs, self.zs) for r in pair]

    def same(self, other):
        return self.n == other.n and self.rows() == other.rows()


def ident_tab(n):
    return Tab(n, [P(0, 1 << i, 0, n) for i in range(n)], [P(0, 0, 1 << i, n) for i in range(n)])
