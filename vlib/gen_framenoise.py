"""Tie G for the Pauli noise routines of FrameSimulator (do_X_ERROR, do_Y_ERROR, do_Z_ERROR, do_DEPOLARIZE1, do_DEPOLARIZE2): what is
flipped when an event fires, as a function of the uniformly drawn p = 1 + rng() % K, and how the event index is split into target
and shot. coq/Gen_FrameNoise.v; GenProofs_FrameNoise.v proves the fixed flips are the documented Paulis and that p -> Pauli is a
bijection onto the non-identity Paulis (pairs), so a uniform p gives the documented uniform mixture."""
import os
import re

from . import core, cxx

SRC = 'src/stim/simulators/frame_simulator.inl'


def parse(src, name):
    got = list(cxx.function_bodies(src, r'void FrameSimulator<W>::%s\(const CircuitInstruction &target_data\)\s*\{' % name))
    if len(got) != 1:
        raise cxx.Refuse('definition not found')
    body = ' '.join(cxx.strip_comments(got[0][1]).split())
    m = re.fullmatch(r'const auto &targets = target_data\.targets; (assert\(!\(targets\.size\(\) & 1\)\); auto n = \(targets\.size\(\) \* batch_size\) >> 1; )?'
                     r'RareErrorIterator::for_samples\(target_data\.args\[0\], (targets\.size\(\) \* batch_size|n), rng, \[&\]\(size_t s\) \{ (.*) \}\);', body)
    if not m:
        raise cxx.Refuse('shape: ' + body[:160])
    pairs = m.group(1) is not None
    if pairs != (m.group(2) == 'n'):
        raise cxx.Refuse('event count expression')
    K = 0
    flips = []
    roles = {}
    for st in [x.strip() for x in m.group(3).split(';') if x.strip()]:
        mm = re.fullmatch(r'auto p = 1 \+ \(rng\(\) % (\d+)\)', st)
        if mm:
            K = int(mm.group(1))
            continue
        if st == 'auto sample_index = s % batch_size':
            continue
        if st == 'auto target_index = s / batch_size' and not pairs:
            continue
        if st == 'auto target_index = (s / batch_size) << 1' and pairs:
            continue
        if st == 'auto t = targets[target_index]' and not pairs:
            roles['t.data'] = 1
            continue
        mm = re.fullmatch(r'size_t (t[12]) = targets\[target_index( \+ 1)?\]\.data', st)
        if mm and pairs:
            roles[mm.group(1)] = 2 if mm.group(2) else 1
            continue
        mm = re.fullmatch(r'([xz])_table\[(t\.data|t1|t2)\]\[sample_index\] \^= (true|p & (\d+)|\(bool\)\(p & (\d+)\))', st)
        if mm and mm.group(2) in roles:
            mask = 0 if mm.group(3) == 'true' else int(mm.group(4) or mm.group(5))
            flips.append((mm.group(1), roles[mm.group(2)], mask))
            continue
        raise cxx.Refuse('statement not understood: ' + st)
    return pairs, K, flips


TS_SRC = 'src/stim/simulators/tableau_simulator.inl'


def parse_ts(src, name):
    """TableauSimulator: flipping zs.signs[q] of the inverse tableau applies X to the state, xs.signs[q] applies Z; rows use the
    same schema with table 'x' = X component (zs.signs) and 'z' = Z component (xs.signs)"""
    got = list(cxx.function_bodies(src, r'void TableauSimulator<W>::%s\(const CircuitInstruction &target_data\)\s*\{' % name))
    if len(got) != 1:
        raise cxx.Refuse('definition not found')
    body = ' '.join(cxx.strip_comments(got[0][1]).split())
    m1 = re.fullmatch(r'RareErrorIterator::for_samples\(target_data\.args\[0\], target_data\.targets, rng, \[&\]\(GateTarget q\) \{ (.*) \}\);', body)
    m2 = re.fullmatch(r'const auto &targets = target_data\.targets; assert\(!\(targets\.size\(\) & 1\)\); auto n = targets\.size\(\) >> 1; '
                      r'RareErrorIterator::for_samples\(target_data\.args\[0\], n, rng, \[&\]\(size_t s\) \{ (.*) \}\);', body)
    if not m1 and not m2:
        raise cxx.Refuse('shape: ' + body[:160])
    pairs = m2 is not None
    K, flips, roles = 0, [], {}
    if not pairs:
        roles['q.data'] = 1
    for st in [x.strip() for x in (m1 or m2).group(1).split(';') if x.strip()]:
        mm = re.fullmatch(r'auto p = 1 \+ \(rng\(\) % (\d+)\)', st)
        if mm:
            K = int(mm.group(1))
            continue
        if pairs and st == 'auto q1 = targets[s << 1].data':
            roles['q1'] = 1
            continue
        if pairs and st == 'auto q2 = targets[1 | (s << 1)].data':
            roles['q2'] = 2
            continue
        mm = re.fullmatch(r'inv_state\.(xs|zs)\.signs\[(q\.data|q1|q2)\] \^= (true|p & (\d+))', st)
        if mm and mm.group(2) in roles:
            flips.append(('x' if mm.group(1) == 'zs' else 'z', roles[mm.group(2)], 0 if mm.group(3) == 'true' else int(mm.group(4))))
            continue
        raise cxx.Refuse('statement not understood: ' + st)
    return pairs, K, flips


def generate(repo=None):
    repo = repo or core.REPO
    src = open(os.path.join(repo, SRC)).read()
    refused, rows = [], []
    for gate, fn in [('X_ERROR', 'do_X_ERROR'), ('Y_ERROR', 'do_Y_ERROR'), ('Z_ERROR', 'do_Z_ERROR'), ('DEPOLARIZE1', 'do_DEPOLARIZE1'),
                     ('DEPOLARIZE2', 'do_DEPOLARIZE2')]:
        try:
            pairs, K, flips = parse(src, fn)
            rows.append((gate, pairs, K, flips))
        except cxx.Refuse as e:
            refused.append((fn, str(e)))
    ts = open(os.path.join(repo, TS_SRC)).read()
    ts_rows = []
    for gate, fn in [('X_ERROR', 'do_X_ERROR'), ('Y_ERROR', 'do_Y_ERROR'), ('Z_ERROR', 'do_Z_ERROR'), ('DEPOLARIZE1', 'do_DEPOLARIZE1'),
                     ('DEPOLARIZE2', 'do_DEPOLARIZE2')]:
        try:
            pairs, K, flips = parse_ts(ts, fn)
            ts_rows.append((gate, pairs, K, flips))
        except cxx.Refuse as e:
            refused.append(('TableauSimulator::' + fn, str(e)))
    out = ['(* GENERATED by vlib/gen_framenoise.py from %s of the working tree. *)' % SRC,
           'From Coq Require Import List String Bool NArith.', 'Import ListNotations.', 'Local Open Scope string_scope.',
           '(* gate, targets in pairs, K (p = 1 + rng() %% K; 0 = no p), flips: (table x/z, which qubit of the target group, mask: 0 = always, else when p & mask) *)',
           'Definition frame_noise : list (string * bool * N * list (string * N * N)) := [%s].' % ';\n  '.join(
               '("%s", %s, %d%%N, [%s])' % (g, 'true' if pr else 'false', K, '; '.join('("%s", %d%%N, %d%%N)' % f for f in fl)) for g, pr, K, fl in rows),
           '(* TableauSimulator: table x = X applied to the state (zs.signs of the inverse tableau), z = Z applied (xs.signs) *)',
           'Definition tableau_noise : list (string * bool * N * list (string * N * N)) := [%s].' % ';\n  '.join(
               '("%s", %s, %d%%N, [%s])' % (g, 'true' if pr else 'false', K, '; '.join('("%s", %d%%N, %d%%N)' % f for f in fl)) for g, pr, K, fl in ts_rows),
           'Definition frame_noise_refused : list (string * string) := [%s].' % '; '.join('("%s", "%s")' % (a, c.replace('"', "'")) for a, c in refused)]
    core.write_if_changed(os.path.join(core.COQ, 'Gen_FrameNoise.v'), '\n'.join(out) + '\n')
    return {'rows': len(rows), 'refused': refused}
