"""./check setup : build everything from files on disk (offline): implementation (o1 + asan) from /repo's working
tree, generated Coq files, the whole Coq development (full .vo), extraction and the model runner."""
import os
import sys
import time

from . import core


def regenerate_all(svh=None):
    from . import gatetable, gen_pauliref
    own = svh is None
    if own:
        svh = core.Svh('o1')
    gatetable.regenerate(svh)
    gen_pauliref.generate()
    for name in ('gen_frame', 'gen_revtrack', 'gen_prepend', 'gen_simplify', 'gen_revmeas', 'gen_framemeas', 'gen_eanoise', 'gen_framenoise', 'gen_paulichan', 'gen_herald', 'gen_elsechain', 'gen_tabmeas', 'gen_intread', 'gen_graphedges', 'gen_demsampler', 'gen_simpsegs', 'gen_adderror', 'gen_avoid', 'gen_brb', 'gen_triinv', 'gen_misc'):
        try:
            mod = __import__('vlib.' + name, fromlist=['generate'])
        except ImportError:
            continue
        mod.generate()
    if own:
        svh.close()


def main():
    t = time.time()
    core.build_impl('o1')
    print('impl o1 built %.0fs' % (time.time() - t))
    core.build_impl('asan')
    print('impl asan built %.0fs' % (time.time() - t))
    regenerate_all()
    core.coq_makefile()
    ok, log = core.coq_make([])
    print('coq development built ok=%s %.0fs' % (ok, time.time() - t))
    if not ok:
        print('\n'.join(core.coq_error_summary(log)))
        print(log[-3000:])
        return 1
    core.build_runner()
    print('runner built %.0fs' % (time.time() - t))
    return 0
