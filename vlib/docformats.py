"""The format specification's own reference encoders/decoders: the Python code blocks embedded in
/repo/doc/result_formats.md are extracted at check time and executed as a third party."""
import os
import re

from . import core

_ns = None


def load():
    global _ns
    if _ns is not None:
        return _ns
    md = open(os.path.join(core.REPO, 'doc', 'result_formats.md')).read()
    ns = {}
    for block in re.findall(r'```python\n(.*?)```', md, flags=re.S):
        exec(compile(block, 'result_formats.md', 'exec'), ns)
    _ns = ns
    return ns


def save(fmt, shots, num_detectors=None, num_observables=0):
    """shots: list of list of bool -> bytes"""
    ns = load()
    if fmt == '01':
        return ns['save_01'](shots).encode()
    if fmt == 'b8':
        return bytes(ns['save_b8'](shots))
    if fmt == 'hits':
        return ns['save_hits'](shots).encode()
    if fmt == 'r8':
        return bytes(ns['save_r8'](shots))
    if fmt == 'ptb64':
        return bytes(ns['save_ptb64'](shots))
    if fmt == 'dets':
        n = len(shots[0]) if shots else 0
        if num_detectors is None:
            # measurement data: every bit is an 'M'; the doc's encoder only knows D/L, translate prefixes
            s = ns['save_dets'](shots, n, 0)
            return s.replace('D', 'M').encode()
        return ns['save_dets'](shots, num_detectors, num_observables).encode()
    raise ValueError(fmt)


def parse(fmt, data, bits_per_shot, num_detectors=None, num_observables=0):
    ns = load()
    if fmt == '01':
        return ns['parse_01'](data.decode())
    if fmt == 'b8':
        return ns['parse_b8'](data, bits_per_shot)
    if fmt == 'hits':
        return ns['parse_hits'](data.decode(), bits_per_shot)
    if fmt == 'r8':
        return ns['parse_r8'](data, bits_per_shot)
    if fmt == 'ptb64':
        return ns['parse_ptb64'](data, bits_per_shot)
    if fmt == 'dets':
        if num_detectors is None:
            return ns['parse_dets'](data.decode().replace('M', 'D'), bits_per_shot, 0)
        return ns['parse_dets'](data.decode(), num_detectors, num_observables)
    raise ValueError(fmt)
