"""Tie G for perform_pauli_errors_via_correlated_errors (tableau_simulator.h), which both simulators use for PAULI_CHANNEL_1/2:
the argument index -> Pauli decoding is translated to Gallina (Python's expression parser; same precedence as C for the
operators used), the conditional probability expression must be the one modelled in Chain.v, and the loop structure must be the
modelled one. coq/Gen_PauliChan.v; GenProofs_PauliChan.v proves that argument k (documented order X Y Z / IX IY ... ZZ) is applied as
exactly that Pauli (pair), first target = leading symbol."""
import os
import re

from . import core, cxx
from .gen_eanoise import c_expr

SRC = 'src/stim/simulators/tableau_simulator.h'
WANT = ('double target_p{}; GateTarget target_t[Q]; CircuitInstruction data{GateType::E, {&target_p}, {&target_t[0], &target_t[Q]}, ""}; '
        'for (size_t k = 0; k < target_data.targets.size(); k += Q) { reset_flag(); double used_probability = 0; '
        'for (size_t pauli = 1; pauli < 1 << (2 * Q); pauli++) { double p = target_data.args[pauli - 1]; if (p == 0) { continue; } '
        'double remaining = 1 - used_probability; double conditional_prob = CPEXPR; used_probability += p; '
        'for (size_t q = 0; q < Q; q++) { target_t[q] = target_data.targets[k + q]; bool z = ZEXPR; bool y = YEXPR; '
        'if (XFLAG) { target_t[q].data |= TARGET_PAULI_X_BIT; } if (ZFLAG) { target_t[q].data |= TARGET_PAULI_Z_BIT; } } '
        'target_p = conditional_prob; else_corr(data); } }')


def generate(repo=None):
    repo = repo or core.REPO
    src = cxx.strip_comments(open(os.path.join(repo, SRC)).read())
    refused = []
    defs = ['Definition pc_z (Q q pauli : N) : bool := false.', 'Definition pc_y (Q q pauli : N) : bool := false.',
            'Definition pc_xbit (z y : bool) : bool := false.', 'Definition pc_zbit (z y : bool) : bool := false.']
    try:
        got = list(cxx.function_bodies(src, r'void perform_pauli_errors_via_correlated_errors\(\s*const CircuitInstruction &target_data, RESET_FLAG reset_flag, ELSE_CORR else_corr\)\s*\{'))
        if len(got) != 1:
            raise cxx.Refuse('definition not found')
        body = ' '.join(got[0][1].split())
        pat = re.escape(WANT)
        for name in ('CPEXPR', 'ZEXPR', 'YEXPR', 'XFLAG', 'ZFLAG'):
            pat = pat.replace(name, '(?P<%s>.+?)' % name)
        m = re.fullmatch(pat, body)
        if not m:
            raise cxx.Refuse('loop structure differs from the modelled one')
        if m.group('CPEXPR') != 'remaining <= 0 ? 0 : remaining <= p ? 1 : p / remaining':
            raise cxx.Refuse('conditional probability expression differs from Chain.cond: ' + m.group('CPEXPR'))

        def boolexpr(text):
            # "<int expr> & c" used as a truth value
            return '(negb (N.eqb %s 0))' % c_expr(text)
        z = boolexpr(m.group('ZEXPR'))
        y = boolexpr(m.group('YEXPR'))

        def cond(text):
            t = text.strip()
            if t == 'z ^ y':
                return 'xorb z y'
            if t == 'z':
                return 'z'
            if t == 'y':
                return 'y'
            raise cxx.Refuse('flag condition ' + t)
        defs = ['Definition pc_z (Q q pauli : N) : bool := %s.' % z, 'Definition pc_y (Q q pauli : N) : bool := %s.' % y,
                'Definition pc_xbit (z y : bool) : bool := %s.' % cond(m.group('XFLAG')),
                'Definition pc_zbit (z y : bool) : bool := %s.' % cond(m.group('ZFLAG'))]
    except cxx.Refuse as e:
        refused.append(('perform_pauli_errors_via_correlated_errors', str(e)))
    # the simulators' wrappers: the chain state of an enclosing E / ELSE chain is saved, the helper runs with a flag that starts clear
    # for every target, and the saved state is restored afterwards
    wrappers = []
    for cls, path, save, clear, restore in [
            ('FrameSimulator<W>', 'src/stim/simulators/frame_simulator.inl', 'tmp_storage = last_correlated_error_occurred;',
             'last_correlated_error_occurred.clear();', 'last_correlated_error_occurred = tmp_storage;'),
            ('TableauSimulator<W>', 'src/stim/simulators/tableau_simulator.inl', 'bool tmp = last_correlated_error_occurred;',
             'last_correlated_error_occurred = false;', 'last_correlated_error_occurred = tmp;')]:
        wsrc = cxx.strip_comments(open(os.path.join(repo, path)).read())
        for n in (1, 2):
            name = 'do_PAULI_CHANNEL_%d' % n
            try:
                got = list(cxx.function_bodies(wsrc, r'void %s::%s\(const CircuitInstruction &target_data\)\s*\{' % (re.escape(cls), name)))
                if len(got) != 1:
                    raise cxx.Refuse('definition not found')
                body = ' '.join(got[0][1].split())
                want = ('%s perform_pauli_errors_via_correlated_errors<%d>( target_data, [&]() { %s }, [&](const CircuitInstruction &d) { '
                        'do_ELSE_CORRELATED_ERROR(d); }); %s' % (save, n, clear, restore))
                if body != want:
                    raise cxx.Refuse('wrapper does not save / clear per target / apply through do_ELSE_CORRELATED_ERROR / restore: ' + body[:200])
                wrappers.append((cls.split('<')[0], name, n))
            except cxx.Refuse as e:
                refused.append((cls + '::' + name, str(e)))
    out = ['(* GENERATED by vlib/gen_paulichan.py from %s of the working tree. *)' % SRC,
           'From Coq Require Import List String Bool NArith.', 'Import ListNotations.', 'Local Open Scope N_scope.'] + defs + [
           'Local Open Scope string_scope.',
           '(* wrappers recognised as: save the enclosing chain state; run the helper (flag cleared per target, elements applied through',
           '   do_ELSE_CORRELATED_ERROR); restore the saved state *)',
           'Definition paulichan_wrappers : list (string * string * N) := [%s].' % '; '.join('("%s", "%s", %d%%N)' % w for w in wrappers),
           'Definition paulichan_refused : list (string * string) := [%s].' % '; '.join('("%s", "%s")' % (a, c.replace('"', "'")) for a, c in refused)]
    core.write_if_changed(os.path.join(core.COQ, 'Gen_PauliChan.v'), '\n'.join(out) + '\n')
    return {'refused': refused}
