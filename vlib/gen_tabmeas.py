"""Tie G for the measurement / reset routines of TableauSimulator and the pair-measurement segments of all four simulators.

* TableauSimulator do_MX .. do_MRZ, do_RX .. do_RZ: the per-target loop body is executed symbolically over GF(2) on the three
  signs an inverse tableau holds for the target (sx = xs.signs[q], sz = zs.signs[q], the sign of eval_y_obs = sx + sz + c with c a
  constant of the rows' Pauli content) and the inverted-result flag f; written as linear forms with the collapse axis and whether
  the new results are passed to noisify_new_measurements.
* collapse_x / collapse_y / collapse_z: the basis change around collapse_qubit_z (gate type and routine before and after).
* MXX / MYY / MZZ segments of TableauSimulator, FrameSimulator, SparseUnsignedRevFrameTracker and ErrorAnalyzer: the gate applied
  before and after, the single-qubit measurement applied to every second target, and (tableau) the recorded form and result count.
* the (gate -> routine) dispatch of the four classes for the gates involved.
GenProofs_TabMeas.v states the obligations over these rows against the generated gate table."""
import os
import re

from . import core, cxx

TAB = 'src/stim/simulators/tableau_simulator.inl'
FRAME = 'src/stim/simulators/frame_simulator.inl'
REV = 'src/stim/simulators/sparse_rev_frame_tracker.cc'
EA = 'src/stim/simulators/error_analyzer.cc'
ROUTINES = ['do_MX', 'do_MY', 'do_MZ', 'do_MRX', 'do_MRY', 'do_MRZ', 'do_RX', 'do_RY', 'do_RZ']
VARS = ('sx', 'sz', 'c', 'f')


def norm(body):
    return ' '.join(cxx.strip_comments(body).split())


def sign_expr(e, val, loc):
    """linear form (frozenset of VARS) of a boolean expression over the signs"""
    e = e.strip()
    parts = [p.strip() for p in e.split('^')]
    acc = frozenset()
    for p in parts:
        if p in ('inv_state.xs.signs[q]', 'inv_state.xs.signs[q.data]'):
            acc ^= val['sx']
        elif p in ('inv_state.zs.signs[q]', 'inv_state.zs.signs[q.data]'):
            acc ^= val['sz']
        elif p in ('inv_state.eval_y_obs(q).sign', 'inv_state.eval_y_obs(q.data).sign'):
            acc ^= val['sx'] ^ val['sz'] ^ frozenset(['c'])
        elif p == 'false':
            pass
        elif p in loc:
            acc ^= loc[p]
        else:
            raise cxx.Refuse('sign expression not understood: ' + p)
    return acc


def run_body(stmts):
    val = {'sx': frozenset(['sx']), 'sz': frozenset(['sz'])}
    loc = {}
    rec = None
    for st in stmts:
        if st in ('auto q = t.qubit_value()',):
            continue
        if st == 'bool flipped = t.is_inverted_result_target()':
            loc['flipped'] = frozenset(['f'])
            continue
        m = re.fullmatch(r'bool (\w+) = (.+)', st)
        if m:
            loc[m.group(1)] = sign_expr(m.group(2), val, loc)
            continue
        m = re.fullmatch(r'measurement_record\.record_result\((\w+)\)', st)
        if m:
            if rec is not None:
                raise cxx.Refuse('two results per target')
            rec = loc[m.group(1)]
            continue
        m = re.fullmatch(r'inv_state\.([xz])s\.signs\[q(?:\.data)?\] (\^?=) (.+)', st)
        if m:
            k = 's' + m.group(1)
            e = sign_expr(m.group(3), val, loc)
            val[k] = (val[k] ^ e) if m.group(2) == '^=' else e
            continue
        raise cxx.Refuse('statement not understood: ' + st)
    return rec, val['sx'], val['sz']


def parse_single(src, name):
    got = list(cxx.function_bodies(src, r'void TableauSimulator<W>::%s\(const CircuitInstruction &(\w+)\)\s*\{' % name))
    if len(got) != 1:
        raise cxx.Refuse('definition not found')
    v = got[0][0].group(1)
    body = norm(got[0][1])
    m = re.match(r'collapse_([xyz])\(%s\.targets\); ' % v, body)
    if not m:
        raise cxx.Refuse('does not start by collapsing its targets: ' + body[:80])
    axis = m.group(1)
    body = body[m.end():]
    noisify = False
    tail = ' noisify_new_measurements(%s);' % v
    if body.endswith(tail):
        noisify = True
        body = body[:-len(tail)]
    m = re.match(r'for \(auto (\w+) : %s\.targets\) \{' % v, body)
    if not m or not body.endswith('}'):
        raise cxx.Refuse('unexpected shape: ' + body[:100])
    lv = m.group(1)
    inner = body[m.end():-1].strip()
    stmts = [x.strip() for x in inner.split(';') if x.strip()]
    if lv == 'q':
        pass            # reset routines iterate `auto q` and index by q.data
    elif lv != 't':
        raise cxx.Refuse('loop variable ' + lv)
    rec, nx, nz = run_body(stmts)
    return axis, rec, nx, nz, noisify


def parse_collapse(src, axis):
    got = list(cxx.function_bodies(src, r'void TableauSimulator<W>::collapse_%s\(SpanRef<const GateTarget> targets, size_t stride\)\s*\{' % axis))
    if len(got) != 1:
        raise cxx.Refuse('definition not found')
    body = norm(got[0][1])
    if 'for (size_t k = 0; k < targets.size(); k += stride) { GateTarget t = targets[k]; t.data &= TARGET_VALUE_MASK; if (!is_deterministic_%s(t.data))' % axis not in body:
        raise cxx.Refuse('selection loop not recognised')
    calls = re.findall(r'(do_\w+)\(\{GateType::(\w+), \{\}, collapse_targets, ""\}\)', body)
    core_pos = body.find('collapse_qubit_z(')
    if core_pos < 0:
        raise cxx.Refuse('collapse_qubit_z not called')
    if len(calls) == 0:
        return ('', '', '', '')
    if len(calls) != 2:
        raise cxx.Refuse('expected one basis change before and one after')
    p1 = body.find(calls[0][0] + '({GateType')
    p2 = body.rfind(calls[1][0] + '({GateType')
    if not (p1 < core_pos < p2):
        raise cxx.Refuse('basis changes do not surround the collapse')
    return (calls[0][1], calls[0][0], calls[1][1], calls[1][0])


SEG_CALL = r'(\w+)\(CircuitInstruction\{GateType::(\w+), \{\}, inst\.targets, (?:""|inst\.tag)\}\); '


def parse_segment(src, cls, routine):
    """shape: G(targets); [collapse;] loop k += 2 {...}; [noisify;] G(targets)"""
    got = list(cxx.function_bodies(src, r'void %s::%s\(const CircuitInstruction &inst\)\s*\{' % (re.escape(cls), routine)))
    if len(got) != 1:
        raise cxx.Refuse('definition not found')
    body = norm(got[0][1]) + ' '
    m = re.match(SEG_CALL, body)
    if not m:
        raise cxx.Refuse('does not start with a basis change: ' + body[:80])
    pre = (m.group(2), m.group(1))
    body = body[m.end():]
    m2 = re.search(SEG_CALL + '$', body)
    if not m2:
        raise cxx.Refuse('does not end with a basis change')
    post = (m2.group(2), m2.group(1))
    body = body[:m2.start()].strip()
    axis = ''
    m = re.match(r'collapse_([xyz])\(inst\.targets, 2\); ', body)
    if m:
        axis = m.group(1)
        body = body[m.end():]
    count = ''
    m = re.search(r' noisify_new_measurements\(inst\.args, (.+?)\);$', body)
    if m:
        count = m.group(1)
        body = body[:m.start()]
    m = re.match(r'for \(size_t k = 0; k < inst\.targets\.size\(\); k \+= 2\) \{', body)
    if not m or not body.endswith('}'):
        raise cxx.Refuse('loop over pairs not recognised: ' + body[:100])
    inner = body[m.end():-1].strip()
    # delegating form
    d = re.fullmatch(r'(\w+)\( ?CircuitInstruction\{GateType::(\w+), inst\.args, SpanRef<const GateTarget>\{&inst\.targets\[k\]\}, (?:""|inst\.tag)\}(?:, "[^"]*")?\);', inner)
    if d:
        return {'pre': pre, 'post': post, 'inner': (d.group(2), d.group(1)), 'axis': axis, 'rec': None, 'count': count}
    stmts = [x.strip() for x in inner.split(';') if x.strip()]
    val = {'sx': frozenset(['sx']), 'sz': frozenset(['sz'])}
    loc = {}
    rec = None
    for st in stmts:
        if st in ('GateTarget t1 = inst.targets[k]', 'GateTarget t2 = inst.targets[k + 1]', 'auto q = t1.qubit_value()'):
            continue
        if st == 'bool flipped = t1.is_inverted_result_target() ^ t2.is_inverted_result_target()':
            loc['flipped'] = frozenset(['f'])       # f stands for the XOR of both inversion flags
            continue
        m = re.fullmatch(r'bool (\w+) = (.+)', st)
        if m:
            loc[m.group(1)] = sign_expr(m.group(2), val, loc)
            continue
        m = re.fullmatch(r'measurement_record\.record_result\((\w+)\)', st)
        if m and rec is None:
            rec = loc[m.group(1)]
            continue
        raise cxx.Refuse('statement not understood: ' + st)
    return {'pre': pre, 'post': post, 'inner': None, 'axis': axis, 'rec': rec, 'count': count}


def dispatch(src, header, prefix):
    got = list(cxx.function_bodies(src, header))
    if not got:
        raise cxx.Refuse('dispatch function not found')
    body = got[0][1]
    sw = re.search(r'switch\s*\(inst\.gate_type\)\s*\{', body)
    ob = sw.end() - 1
    cb = cxx.match_brace(body, ob)
    d = {}
    for gate, stmts in cxx.switch_table(body[ob + 1:cb]):
        m = re.fullmatch(r'(%s\w+)\(inst\)' % prefix, stmts[0]) if stmts else None
        if m:
            d[gate] = m.group(1)
    return d


MRB = 'src/stim/io/measure_record_batch.inl'


def parse_measrec(src, tab):
    """MeasureRecordBatch::reserve_noisy_space_for_results / xor_record_reserved_result / record_result and
    TableauSimulator::noisify_new_measurements, reduced to the numbers the model MeasRec.v is stated over."""
    def body_of(text, header):
        got = list(cxx.function_bodies(text, header))
        if len(got) != 1:
            raise cxx.Refuse('definition not found: ' + header[:60])
        return [x.strip() for x in norm(got[0][1]).split(';') if x.strip()]
    st = body_of(src, r'void MeasureRecordBatch<W>::reserve_noisy_space_for_results\(const CircuitInstruction &inst, std::mt19937_64 &rng\)\s*\{')
    if len(st) != 4 or st[0] != 'size_t count = inst.targets.size()' or st[1] != 'reserve_space_for_results(count)':
        raise cxx.Refuse('reserve_noisy_space_for_results: count / reservation not recognised: ' + '; '.join(st)[:120])
    m = re.fullmatch(r'float p = inst\.args\.empty\(\) \? (\d+) : inst\.args\[(\d+)\]', st[2])
    if not m:
        raise cxx.Refuse('reserve_noisy_space_for_results: probability not recognised: ' + st[2])
    p_default, p_index = int(m.group(1)), int(m.group(2))
    m = re.fullmatch(r'biased_randomize_bits\(p, storage\[stored(?: \+ (\d+))?\]\.u64, storage\[stored \+ count(?: ([+-]) (\d+))?\]\.u64, rng\)', st[3])
    if not m:
        raise cxx.Refuse('reserve_noisy_space_for_results: randomised range not recognised: ' + st[3])
    lo = int(m.group(1) or 0)
    hi_extra = int(m.group(3) or 0) * (-1 if m.group(2) == '-' else 1)
    if hi_extra < 0:
        raise cxx.Refuse('reserve_noisy_space_for_results: range ends before stored + count')

    def run(stmts):
        """effect on row stored+0: (is_xor, assigned, masked, stored increment, unwritten increment, reserved)"""
        isx = asg = msk = False
        inc = unw = res = 0
        for x in stmts:
            if x == 'storage[stored] ^= result' and inc == 0 and not (isx or asg):
                isx = True
            elif x == 'storage[stored] = result' and inc == 0 and not (isx or asg):
                asg = True
            elif x == 'storage[stored] &= shot_mask' and inc == 0 and (isx or asg):
                msk = True
            elif x == 'stored++':
                inc += 1
            elif x == 'unwritten++':
                unw += 1
            elif re.fullmatch(r'reserve_space_for_results\((\d+)\)', x) and inc == 0 and not (isx or asg):
                res = int(re.fullmatch(r'reserve_space_for_results\((\d+)\)', x).group(1))
            else:
                raise cxx.Refuse('record statement not understood: ' + x)
        return isx, asg, msk, inc, unw, res
    xr = run(body_of(src, r'void MeasureRecordBatch<W>::xor_record_reserved_result\(simd_bits_range_ref<W> result\)\s*\{'))
    rr = run(body_of(src, r'void MeasureRecordBatch<W>::record_result\(simd_bits_range_ref<W> result\)\s*\{'))
    # TableauSimulator::noisify_new_measurements
    got = list(cxx.function_bodies(tab, r'void TableauSimulator<W>::noisify_new_measurements\(SpanRef<const double> args, size_t num_targets\)\s*\{'))
    if len(got) != 1:
        raise cxx.Refuse('noisify_new_measurements not found')
    b = norm(got[0][1])
    m = re.fullmatch(r'if \(args\.empty\(\)\) \{ return; \} size_t last = measurement_record\.storage\.size\(\) - (\d+); '
                     r'RareErrorIterator::for_samples\(args\[(\d+)\], num_targets, rng, \[&\]\(size_t k\) \{ '
                     r'measurement_record\.storage\[last - k\] = !measurement_record\.storage\[last - k\]; \}\);', b)
    if not m:
        raise cxx.Refuse('noisify_new_measurements: shape not recognised: ' + b[:160])
    last_off, arg_index = int(m.group(1)), int(m.group(2))
    got = list(cxx.function_bodies(tab, r'void TableauSimulator<W>::noisify_new_measurements\(const CircuitInstruction &inst\)\s*\{'))
    if len(got) != 1 or norm(got[0][1]) != 'noisify_new_measurements(inst.args, inst.targets.size());':
        raise cxx.Refuse('noisify_new_measurements(inst): not (inst.args, inst.targets.size())')
    return (p_default, p_index, lo, hi_extra), xr, rr, (last_off, arg_index)


def lin(s):
    if s is None:
        return 'None'
    return 'Some (%s, %s, %s, %s)' % tuple('true' if v in s else 'false' for v in VARS)


def q(s):
    return '"%s"' % s.replace('"', "'")


GATES_OF_INTEREST = ['H', 'H_YZ', 'CX', 'CY', 'XCZ', 'MX', 'MY', 'M', 'MRX', 'MRY', 'MR', 'RX', 'RY', 'R', 'MXX', 'MYY', 'MZZ']


def generate(repo=None):
    repo = repo or core.REPO
    tab = open(os.path.join(repo, TAB)).read()
    frame = open(os.path.join(repo, FRAME)).read()
    rev = open(os.path.join(repo, REV)).read()
    ea = open(os.path.join(repo, EA)).read()
    refused = []
    rows = []
    for name in ROUTINES:
        try:
            rows.append((name,) + parse_single(tab, name))
        except cxx.Refuse as e:
            refused.append((name, str(e)))
    coll = []
    for axis in 'xyz':
        try:
            coll.append((axis,) + parse_collapse(tab, axis))
        except cxx.Refuse as e:
            refused.append(('collapse_' + axis, str(e)))
    segs = []
    for cls, tag, src, names in [
            ('TableauSimulator<W>', 'tableau', tab, ['do_MXX_disjoint_controls_segment', 'do_MYY_disjoint_controls_segment', 'do_MZZ_disjoint_controls_segment']),
            ('FrameSimulator<W>', 'frame', frame, ['do_MXX_disjoint_controls_segment', 'do_MYY_disjoint_controls_segment', 'do_MZZ_disjoint_controls_segment']),
            ('SparseUnsignedRevFrameTracker', 'tracker', rev, ['undo_MXX_disjoint_segment', 'undo_MYY_disjoint_segment', 'undo_MZZ_disjoint_segment']),
            ('ErrorAnalyzer', 'analyzer', ea, ['undo_MXX_disjoint_controls_segment', 'undo_MYY_disjoint_controls_segment', 'undo_MZZ_disjoint_controls_segment'])]:
        for nm in names:
            try:
                segs.append((tag, nm, parse_segment(src, cls, nm)))
            except cxx.Refuse as e:
                refused.append((tag + ':' + nm, str(e)))
    # which pair gate reaches which segment: do_MXX(inst) { decompose...( ... { SEGMENT(segment); }) }
    seg_of = []
    for cls, tag, src, prefix in [('TableauSimulator<W>', 'tableau', tab, 'do_'), ('FrameSimulator<W>', 'frame', frame, 'do_'),
                                  ('SparseUnsignedRevFrameTracker', 'tracker', rev, 'undo_'), ('ErrorAnalyzer', 'analyzer', ea, 'undo_')]:
        for g in ('MXX', 'MYY', 'MZZ'):
            got = list(cxx.function_bodies(src, r'void %s::%s%s\(const CircuitInstruction &inst\)\s*\{' % (re.escape(cls), prefix, g)))
            if len(got) != 1:
                refused.append((tag + ':' + prefix + g, 'definition not found'))
                continue
            body = norm(got[0][1])
            m = re.search(r'decompose_pair_instruction_into_disjoint_segments\(.*\[&\]\(CircuitInstruction segment\) \{ (\w+)\(segment\); \}\);$', body)
            if not m:
                refused.append((tag + ':' + prefix + g, 'does not hand disjoint segments to one routine'))
                continue
            seg_of.append((tag, prefix + g, m.group(1)))
    disp = []
    try:
        for tag, src, header, prefix in [
                ('tableau', tab, r'void TableauSimulator<W>::do_gate\(const CircuitInstruction &inst\)\s*\{', 'do_'),
                ('frame', frame, r'void FrameSimulator<W>::do_gate\(const CircuitInstruction &inst\)\s*\{', 'do_'),
                ('tracker', rev, r'void SparseUnsignedRevFrameTracker::undo_gate\(const CircuitInstruction &inst\)\s*\{', 'undo_'),
                ('analyzer', ea, r'void ErrorAnalyzer::undo_gate\(const CircuitInstruction &inst\)\s*\{', 'undo_')]:
            d = dispatch(src, header, prefix)
            for g in GATES_OF_INTEREST:
                if g in d:
                    disp.append((tag, g, d[g]))
    except cxx.Refuse as e:
        refused.append(('dispatch', str(e)))
    # analyzer routines that only forward to the tracker, or to a *_with_context variant
    fwd = []
    for m in re.finditer(r'void ErrorAnalyzer::(undo_\w+)\(const CircuitInstruction &(\w+)\)\s*\{\s*tracker\.(undo_\w+)\(\2\);\s*\}', ea):
        fwd.append((m.group(1), m.group(3)))
    for m in re.finditer(r'void ErrorAnalyzer::(undo_\w+)\(const CircuitInstruction &(\w+)\)\s*\{\s*(undo_\w+_with_context)\(\2, "[^"]*"\);\s*\}', ea):
        fwd.append((m.group(1), m.group(3)))

    measrec = None
    try:
        measrec = parse_measrec(open(os.path.join(repo, MRB)).read(), tab)
    except cxx.Refuse as e:
        refused.append(('measure_record', str(e)))

    def b(x):
        return 'true' if x else 'false'

    # MPP / SPP entry points of the four classes: which decomposer, whether the target list is reversed first, what the callback does
    prodrows = []
    FWD_CB = {'tableau': 'do_gate', 'frame': 'safe_do_instruction'}
    for cls, tag, src_, prefix in [('TableauSimulator<W>', 'tableau', tab, 'do_'), ('FrameSimulator<W>', 'frame', frame, 'do_'),
                                   ('SparseUnsignedRevFrameTracker', 'tracker', rev, 'undo_'), ('ErrorAnalyzer', 'analyzer', ea, 'undo_')]:
        for g in (['MPP', 'SPP', 'SPP_DAG'] if prefix == 'do_' else ['MPP', 'SPP']):
            nm = prefix + g
            try:
                got = list(cxx.function_bodies(src_, r'void %s::%s\(const CircuitInstruction &(\w+)\)\s*\{' % (re.escape(cls), nm)))
                if len(got) != 1:
                    raise cxx.Refuse('definition not found')
                v = got[0][0].group(1)
                body = norm(got[0][1])
                dec = 'decompose_mpp_operation' if g == 'MPP' else 'decompose_spp_or_spp_dag_operation'
                if prefix == 'do_':
                    nq = 'inv_state.num_qubits' if tag == 'tableau' else 'num_qubits'
                    extra = '' if g == 'MPP' else ' false,'
                    want = '%s(%s, %s,%s [&](const CircuitInstruction &inst) { %s(inst); });' % (dec, v, nq, extra, FWD_CB[tag])
                    if body != want:
                        raise cxx.Refuse('shape not recognised: ' + body[:160])
                    prodrows.append((tag, nm, dec, False, FWD_CB[tag], ''))
                else:
                    pre = ('size_t n = inst.targets.size(); std::vector<GateTarget> reversed_targets(n); std::vector<GateTarget> reversed_measure_targets; '
                           'for (size_t k = 0; k < n; k++) { reversed_targets[k] = inst.targets[n - k - 1]; } ')
                    if not body.startswith(pre):
                        raise cxx.Refuse('target list is not reversed first: ' + body[:120])
                    rest = body[len(pre):]
                    nq = 'xs.size()' if tag == 'tracker' else 'tracker.xs.size()'
                    m = re.fullmatch(r'%s\( CircuitInstruction\{(?:inst\.gate_type|GateType::%s), inst\.args, reversed_targets, inst\.tag\}, %s,%s \[&\]\(const CircuitInstruction &(\w+)\) \{ (.*) \}\);'
                                     % (dec, g, re.escape(nq), '' if g == 'MPP' else ' false,'), rest)
                    if not m:
                        raise cxx.Refuse('decomposer call not recognised: ' + rest[:200])
                    sv, cb = m.group(1), m.group(2)
                    if g == 'MPP':
                        mz = 'undo_MZ' if tag == 'tracker' else 'undo_MZ_with_context'
                        mm = re.fullmatch(r'if \(%s\.gate_type == GateType::M\) \{ reversed_measure_targets\.clear\(\); for \(size_t k = %s\.targets\.size\(\); k--;\) \{ '
                                          r'reversed_measure_targets\.push_back\(%s\.targets\[k\]\); \} (\w+)\( ?(?:CircuitInstruction)?\{GateType::M, %s\.args, reversed_measure_targets, %s\.tag\}(?:, "[^"]*")?\); \} '
                                          r'else \{ undo_gate\(%s\); \}' % (sv, sv, sv, sv, sv, sv), cb)
                        if not mm or mm.group(1) != mz:
                            raise cxx.Refuse('callback not recognised: ' + cb[:200])
                        prodrows.append((tag, nm, dec, True, 'undo_gate', mz))
                    else:
                        if cb != 'undo_gate(%s);' % sv:
                            raise cxx.Refuse('callback not recognised: ' + cb[:120])
                        prodrows.append((tag, nm, dec, True, 'undo_gate', ''))
            except cxx.Refuse as e:
                refused.append((tag + ':' + nm, str(e)))

    out = ['(* GENERATED by vlib/gen_tabmeas.py from %s, %s, %s, %s of the working tree. *)' % (TAB, FRAME, REV, EA),
           'From Coq Require Import List String Bool.', 'Import ListNotations.', 'Local Open Scope string_scope.',
           '(* linear form over (sx, sz, c, f): xs.signs[q], zs.signs[q], the content constant of eval_y_obs(q).sign = sx+sz+c, inverted-result flag *)',
           'Definition lin4 := (bool * bool * bool * bool)%type.',
           '(* routine, collapse axis, recorded result, new xs sign, new zs sign, results passed to noisify_new_measurements *)',
           'Definition tabmeas : list (string * string * option lin4 * option lin4 * option lin4 * bool) := [%s].' % ';\n  '.join(
               '(%s, %s, %s, %s, %s, %s)' % (q(n), q(ax), lin(rec), lin(nx), lin(nz), 'true' if noi else 'false') for n, ax, rec, nx, nz, noi in rows),
           '(* axis, gate type and routine applied before collapse_qubit_z, gate type and routine applied after *)',
           'Definition tabcollapse : list (string * string * string * string * string) := [%s].' % '; '.join(
               '(%s)' % ', '.join(q(x) for x in r) for r in coll),
           '(* class, segment routine, (gate, routine) before, (gate, routine) after, delegated single-qubit measurement (gate, routine) or "",',
           '   collapse axis or "", recorded form (inline variant), result count expression *)',
           'Definition pairsegs : list (string * string * (string * string) * (string * string) * (string * string) * string * option lin4 * string) := [%s].' % ';\n  '.join(
               '(%s, %s, (%s, %s), (%s, %s), (%s, %s), %s, %s, %s)' % (
                   q(tag), q(nm), q(s['pre'][0]), q(s['pre'][1]), q(s['post'][0]), q(s['post'][1]),
                   q(s['inner'][0] if s['inner'] else ''), q(s['inner'][1] if s['inner'] else ''), q(s['axis']), lin(s['rec']), q(s['count']))
               for tag, nm, s in segs),
           'Definition pairseg_of : list (string * string * string) := [%s].' % '; '.join('(%s, %s, %s)' % (q(a), q(b), q(c)) for a, b, c in seg_of),
           'Definition meas_dispatch : list (string * string * string) := [%s].' % ';\n  '.join('(%s, %s, %s)' % (q(a), q(b), q(c)) for a, b, c in disp),
           '(* class, routine, decomposer, target list reversed first, callback for the emitted gates, routine for the emitted M with its targets reversed *)',
           'Definition product_entries : list (string * string * string * bool * string * string) := [%s].' % ';\n  '.join(
               '(%s, %s, %s, %s, %s, %s)' % (q(a), q(b), q(c), 'true' if d else 'false', q(e), q(f)) for a, b, c, d, e, f in prodrows),
           'Definition analyzer_forwards : list (string * string) := [%s].' % '; '.join('(%s, %s)' % (q(a), q(b)) for a, b in fwd),
           '(* reserve_noisy_space_for_results: default probability, argument index, first row offset from stored, rows past stored+count;',
           '   xor_record_reserved_result and record_result: xors, assigns, masks, stored increment, unwritten increment, rows reserved;',
           '   noisify_new_measurements: last = size - this, probability argument index *)',
           'Definition measrec_reserve : option (nat * nat * nat * nat) := %s.' % ('Some (%d, %d, %d, %d)' % measrec[0] if measrec else 'None'),
           'Definition measrec_xor : option (bool * bool * bool * nat * nat * nat) := %s.' % (
               'Some (%s, %s, %s, %d, %d, %d)' % (b(measrec[1][0]), b(measrec[1][1]), b(measrec[1][2]), measrec[1][3], measrec[1][4], measrec[1][5]) if measrec else 'None'),
           'Definition measrec_record : option (bool * bool * bool * nat * nat * nat) := %s.' % (
               'Some (%s, %s, %s, %d, %d, %d)' % (b(measrec[2][0]), b(measrec[2][1]), b(measrec[2][2]), measrec[2][3], measrec[2][4], measrec[2][5]) if measrec else 'None'),
           'Definition tab_noisify : option (nat * nat) := %s.' % ('Some (%d, %d)' % measrec[3] if measrec else 'None'),
           'Definition tabmeas_refused : list (string * string) := [%s].' % '; '.join('(%s, %s)' % (q(a), q(c)) for a, c in refused)]
    core.write_if_changed(os.path.join(core.COQ, 'Gen_TabMeas.v'), '\n'.join(out) + '\n')
    return {'rows': len(rows), 'segments': len(segs), 'refused': refused}


if __name__ == '__main__':
    print(generate())
