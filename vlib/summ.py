import json,glob,collections,sys
prop=sys.argv[1]
c=collections.Counter(); ex={}
for f in glob.glob('/verif/replays/%s-*.json'%prop):
    r=json.load(open(f))
    if r.get('kind')=='broken-obligation':
        print('BROKEN', json.dumps(r['broken'])[:1500]); continue
    k=(r['entry_point'],r['class'],r['detail'][:50])
    c[k]+=1
    if k not in ex or len(r['input'])<len(ex[k]['input']): ex[k]=r
for k,v in c.most_common(12):
    r=ex[k]; print(v,k); print('   IN:',str(r['input']).replace('\n',' ; ')[:300]); print('   exp',str(r['expected_by_spec'])[:120],'| got',str(r['observed'])[:120],'|',r['detail'][:250])
