"""Circuit text handling for the drivers: a small parser for (valid) stim circuit text, REPEAT unrolling, and the
translation of a flattened circuit into the instruction list of the Coq specification (Spec.v) together with the
bookkeeping of fault variables. This is unverified glue: its errors show up as disagreements, never as silent passes,
because both sides (implementation and specification) consume what it produces independently."""
import re

from . import gatetable as gt

F = gt.F


class T:
    """gate target"""
    __slots__ = ('kind', 'val', 'inv', 'pauli')

    def __init__(self, kind, val=0, inv=False, pauli=None):
        self.kind = kind      # 'q' | 'rec' | 'sweep' | 'pauli' | 'comb'
        self.val = val
        self.inv = inv
        self.pauli = pauli

    def __repr__(self):
        if self.kind == 'q':
            return ('!' if self.inv else '') + str(self.val)
        if self.kind == 'rec':
            return 'rec[-%d]' % self.val
        if self.kind == 'sweep':
            return 'sweep[%d]' % self.val
        if self.kind == 'pauli':
            return ('!' if self.inv else '') + self.pauli + str(self.val)
        return '*'


class Instr:
    __slots__ = ('name', 'args', 'targets', 'tag', 'body', 'reps')

    def __init__(self, name, args=(), targets=(), tag='', body=None, reps=0):
        self.name = name
        self.args = list(args)
        self.targets = list(targets)
        self.tag = tag
        self.body = body
        self.reps = reps

    def text(self):
        if self.name == 'REPEAT':
            return 'REPEAT %d {\n%s\n}' % (self.reps, '\n'.join('    ' + l for i in self.body for l in i.text().split('\n')))
        s = self.name
        if self.tag:
            s += '[' + self.tag + ']'
        if self.args:
            s += '(' + ', '.join(fmt_arg(a) for a in self.args) + ')'
        out = []
        for t in self.targets:
            out.append(repr(t))
        txt = ' '.join(out).replace(' * ', '*')
        return s + (' ' + txt if txt else '')


def fmt_arg(a):
    if isinstance(a, str):
        return a
    if a == int(a) and abs(a) < 1e15:
        return str(int(a))
    return repr(float(a))


def circuit_text(instrs):
    return '\n'.join(i.text() for i in instrs)


TARGET_RE = re.compile(r'(!?)(?:([XYZxyz])(\d+)|(\d+)|rec\[-(\d+)\]|sweep\[(\d+)\])$')


def parse_target(tok):
    if tok == '*':
        return T('comb')
    m = TARGET_RE.match(tok)
    if not m:
        raise ValueError('bad target ' + tok)
    inv = m.group(1) == '!'
    if m.group(2):
        return T('pauli', int(m.group(3)), inv, m.group(2).upper())
    if m.group(4) is not None:
        return T('q', int(m.group(4)), inv)
    if m.group(5) is not None:
        return T('rec', int(m.group(5)))
    return T('sweep', int(m.group(6)))


class Names:
    """name / alias resolution from the generated gate table"""

    def __init__(self, gates):
        self.by_name = {}
        self.gates = gates
        for g in gates:
            self.by_name[g.name] = g
            for a in g.aliases:
                self.by_name[a] = g

    def get(self, name):
        return self.by_name[name.upper()]


def parse(text, names):
    lines = text.split('\n')
    pos = [0]

    def block():
        out = []
        while pos[0] < len(lines):
            line = lines[pos[0]]
            pos[0] += 1
            line = line.split('#')[0].strip()
            if not line:
                continue
            if line == '}':
                return out
            m = re.match(r'([A-Za-z_][A-Za-z_0-9]*)(\[[^\]]*\])?(\([^)]*\))?\s*(.*)$', line)
            if not m:
                raise ValueError('cannot parse line: ' + line)
            name = m.group(1).upper()
            tag = m.group(2)[1:-1] if m.group(2) else ''
            rest = m.group(4).strip()
            if name == 'REPEAT':
                reps = int(rest.rstrip('{').strip())
                body = block()
                out.append(Instr('REPEAT', tag=tag, body=body, reps=reps))
                continue
            g = names.get(name)
            args = [float(a) for a in m.group(3)[1:-1].split(',')] if m.group(3) and m.group(3)[1:-1].strip() else []
            toks = rest.replace('*', ' * ').split()
            out.append(Instr(g.name, args, [parse_target(t) for t in toks], tag))
        return out

    return block()


def flatten(instrs, limit=200000):
    out = []

    def go(l):
        for i in l:
            if i.name == 'REPEAT':
                for _ in range(i.reps):
                    go(i.body)
                    if len(out) > limit:
                        raise ValueError('flattened circuit too large')
            else:
                out.append(i)

    go(instrs)
    return out


def num_qubits(instrs):
    n = 0
    for i in instrs:
        if i.name == 'REPEAT':
            n = max(n, num_qubits(i.body))
        else:
            for t in i.targets:
                if t.kind in ('q', 'pauli'):
                    n = max(n, t.val + 1)
    return n


MEAS_BASIS = {'M': 'Z', 'MX': 'X', 'MY': 'Y', 'MR': 'Z', 'MRX': 'X', 'MRY': 'Y', 'R': 'Z', 'RX': 'X', 'RY': 'Y',
              'MXX': 'X', 'MYY': 'Y', 'MZZ': 'Z'}
FEEDBACK_PAULI = {'CX': ('X', 1), 'CY': ('Y', 1), 'CZ': ('Z', None), 'XCZ': ('X', 0), 'YCZ': ('Y', 0)}
P2 = ['I', 'X', 'Y', 'Z']


class Channel:
    """one application of a noise channel: mutually exclusive outcomes, each a probability and a set of fault variables"""

    def __init__(self, kind, instr_index, outcomes, where):
        self.kind = kind
        self.instr_index = instr_index
        self.outcomes = outcomes      # list of (prob, [vars])
        self.where = where


def groups_of_products(targets):
    """split MPP/SPP-style targets into products: list of list of T (pauli targets)"""
    prods = []
    cur = []
    expect_more = False
    for t in targets:
        if t.kind == 'comb':
            expect_more = True
            continue
        if cur and not expect_more:
            prods.append(cur)
            cur = []
        cur.append(t)
        expect_more = False
    if cur:
        prods.append(cur)
    return prods


class SpecIR:
    def __init__(self):
        self.lines = []
        self.channels = []
        self.nvars = 0            # reserved variables (sweep + fault)
        self.nsweep = 0
        self.num_meas = 0
        self.num_det = 0
        self.obs_ids = set()
        self.meas_instr = []      # flattened instruction index of each measurement result
        self.instr_line_start = []  # for each flattened instruction: index of its first line in `lines`
        self.meas_line = []       # for each measurement result: index of the line that records it


def to_spec(flat, names, nsweep=0, noise=True, with_annotations=True):
    """flattened circuit -> SpecIR. Sweep bit k is variable k; fault variables follow."""
    ir = SpecIR()
    ir.nsweep = nsweep
    nv = [nsweep]

    def newvar():
        nv[0] += 1
        return nv[0] - 1

    L = ir.lines
    else_remaining = [None]       # probability that no earlier element of the current E/ELSE chain fired
    chain = [None]

    def record_noise(idx, p):
        if noise and p > 0:
            v = newvar()
            L.append('FLIP %d' % v)
            ir.channels.append(Channel('flip', idx, [(p, [v])], ir.num_meas - 1))

    class _L(list):
        def append(self, x):
            if x.split(' ')[0] in ('M', 'MR', 'MPAD', 'RECV'):
                ir.meas_line.append(len(self))
            list.append(self, x)
    L = _L()
    ir.lines = L
    for idx, ins in enumerate(flat):
        ir.instr_line_start.append(len(L))
        g = names.get(ins.name)
        nm = g.name
        ts = ins.targets
        if nm in ('TICK', 'QUBIT_COORDS', 'SHIFT_COORDS', 'I', 'II', 'I_ERROR', 'II_ERROR'):
            continue
        if nm == 'DETECTOR':
            if with_annotations:
                L.append('DET ' + ' '.join(str(t.val) for t in ts))
            ir.num_det += 1
            continue
        if nm == 'OBSERVABLE_INCLUDE':
            if with_annotations:
                parts = []
                for t in ts:
                    parts.append(str(t.val) if t.kind == 'rec' else '%d:%s' % (t.val, t.pauli))
                L.append('OBS %d %s' % (int(ins.args[0]), ' '.join(parts)))
            ir.obs_ids.add(int(ins.args[0]))
            continue
        if nm == 'MPAD':
            for t in ts:
                L.append('MPAD %d' % t.val)
                ir.num_meas += 1
                ir.meas_instr.append(idx)
                record_noise(idx, ins.args[0] if ins.args else 0)
            continue
        if g.flags & F['UNITARY'] and len(g.flows) in (2, 4):
            if len(g.flows) == 2:
                for t in ts:
                    L.append('U1 %d %d' % (g.id, t.val))
            else:
                for k in range(0, len(ts), 2):
                    a, b = ts[k], ts[k + 1]
                    if a.kind == 'q' and b.kind == 'q':
                        L.append('U2 %d %d %d' % (g.id, a.val, b.val))
                    else:
                        if nm not in FEEDBACK_PAULI:
                            raise ValueError('classical control on ' + nm)
                        pauli, qpos = FEEDBACK_PAULI[nm]
                        if nm == 'CZ':
                            if a.kind != 'q' and b.kind != 'q':
                                continue
                            bit, qt = (a, b) if a.kind != 'q' else (b, a)
                        elif qpos == 1:
                            bit, qt = a, b
                        else:
                            bit, qt = b, a
                        if bit.kind == 'q' or qt.kind != 'q':
                            raise ValueError('bit on the wrong side of ' + nm)
                        c = 'r%d' % bit.val if bit.kind == 'rec' else 'v%d' % bit.val
                        L.append('IF %s %d:%s' % (c, qt.val, pauli))
            continue
        if nm in ('SPP', 'SPP_DAG'):
            for prod in groups_of_products(ts):
                inv = 0
                for t in prod:
                    inv ^= int(t.inv)
                dag = (nm == 'SPP_DAG') ^ bool(inv)
                L.append('SPP %d %s' % (int(dag), ' '.join('%d:%s' % (t.val, t.pauli) for t in prod)))
            continue
        if nm in ('M', 'MX', 'MY'):
            b = MEAS_BASIS[nm]
            for t in ts:
                L.append('M %d %d:%s' % (int(t.inv), t.val, b))
                ir.num_meas += 1
                ir.meas_instr.append(idx)
                record_noise(idx, ins.args[0] if ins.args else 0)
            continue
        if nm in ('MR', 'MRX', 'MRY'):
            b = MEAS_BASIS[nm]
            for t in ts:
                L.append('MR %s %d %d' % (b, t.val, int(t.inv)))
                ir.num_meas += 1
                ir.meas_instr.append(idx)
                record_noise(idx, ins.args[0] if ins.args else 0)
            continue
        if nm in ('R', 'RX', 'RY'):
            for t in ts:
                L.append('R %s %d' % (MEAS_BASIS[nm], t.val))
            continue
        if nm in ('MXX', 'MYY', 'MZZ'):
            b = MEAS_BASIS[nm]
            for k in range(0, len(ts), 2):
                a, c = ts[k], ts[k + 1]
                L.append('M %d %d:%s %d:%s' % (int(a.inv) ^ int(c.inv), a.val, b, c.val, b))
                ir.num_meas += 1
                ir.meas_instr.append(idx)
                record_noise(idx, ins.args[0] if ins.args else 0)
            continue
        if nm == 'MPP':
            for prod in groups_of_products(ts):
                inv = 0
                for t in prod:
                    inv ^= int(t.inv)
                L.append('M %d %s' % (inv, ' '.join('%d:%s' % (t.val, t.pauli) for t in prod)))
                ir.num_meas += 1
                ir.meas_instr.append(idx)
                record_noise(idx, ins.args[0] if ins.args else 0)
            continue
        # ---- noise channels ----
        if not (g.flags & F['NOISY']):
            raise ValueError('unhandled instruction ' + nm)
        if nm in ('HERALDED_ERASE', 'HERALDED_PAULI_CHANNEL_1'):
            for t in ts:
                if noise:
                    h, vx, vz = newvar(), newvar(), newvar()
                    L.append('RECV %d' % h)
                    L.append('IF v%d %d:X' % (vx, t.val))
                    L.append('IF v%d %d:Z' % (vz, t.val))
                    if nm == 'HERALDED_ERASE':
                        p = ins.args[0]
                        oc = [(p / 4, [h]), (p / 4, [h, vx]), (p / 4, [h, vx, vz]), (p / 4, [h, vz])]
                    else:
                        pi, px, py, pz = ins.args
                        oc = [(pi, [h]), (px, [h, vx]), (py, [h, vx, vz]), (pz, [h, vz])]
                    ir.channels.append(Channel(nm, idx, oc, t.val))
                else:
                    L.append('MPAD 0')
                ir.num_meas += 1
                ir.meas_instr.append(idx)
            continue
        if not noise:
            continue
        if nm in ('X_ERROR', 'Y_ERROR', 'Z_ERROR'):
            for t in ts:
                v = newvar()
                L.append('IF v%d %d:%s' % (v, t.val, nm[0]))
                ir.channels.append(Channel(nm, idx, [(ins.args[0], [v])], t.val))
            continue
        if nm in ('DEPOLARIZE1', 'PAULI_CHANNEL_1'):
            for t in ts:
                vx, vz = newvar(), newvar()
                L.append('IF v%d %d:X' % (vx, t.val))
                L.append('IF v%d %d:Z' % (vz, t.val))
                if nm == 'DEPOLARIZE1':
                    p = ins.args[0]
                    oc = [(p / 3, [vx]), (p / 3, [vx, vz]), (p / 3, [vz])]
                else:
                    oc = [(ins.args[0], [vx]), (ins.args[1], [vx, vz]), (ins.args[2], [vz])]
                ir.channels.append(Channel(nm, idx, oc, t.val))
            continue
        if nm in ('DEPOLARIZE2', 'PAULI_CHANNEL_2'):
            for k in range(0, len(ts), 2):
                a, b = ts[k], ts[k + 1]
                vs = [newvar() for _ in range(4)]
                L.append('IF v%d %d:X' % (vs[0], a.val))
                L.append('IF v%d %d:Z' % (vs[1], a.val))
                L.append('IF v%d %d:X' % (vs[2], b.val))
                L.append('IF v%d %d:Z' % (vs[3], b.val))
                oc = []
                j = 0
                for pa in range(4):
                    for pb in range(4):
                        if pa == 0 and pb == 0:
                            continue
                        vv = []
                        if P2[pa] in 'XY':
                            vv.append(vs[0])
                        if P2[pa] in 'YZ':
                            vv.append(vs[1])
                        if P2[pb] in 'XY':
                            vv.append(vs[2])
                        if P2[pb] in 'YZ':
                            vv.append(vs[3])
                        p = ins.args[0] / 15 if nm == 'DEPOLARIZE2' else ins.args[j]
                        oc.append((p, vv))
                        j += 1
                ir.channels.append(Channel(nm, idx, oc, (a.val, b.val)))
            continue
        if nm in ('E', 'ELSE_CORRELATED_ERROR'):
            v = newvar()
            L.append('IF v%d %s' % (v, ' '.join('%d:%s' % (t.val, t.pauli) for t in ts)))
            p = ins.args[0]
            if nm == 'E' or chain[0] is None:
                chain[0] = Channel('E-chain', idx, [], None)
                ir.channels.append(chain[0])
                else_remaining[0] = 1.0
            chain[0].outcomes.append((else_remaining[0] * p, [v]))
            else_remaining[0] *= (1 - p)
            continue
        raise ValueError('unhandled noise ' + nm)
    ir.nvars = nv[0]
    return ir


def spec_cmd(n, ir, extra=()):
    return 'spec %d %d ; %s' % (n, ir.nvars, ' ; '.join(list(ir.lines) + list(extra)))


def parse_form(s):
    c, m = s.split(':')
    return int(c), int(m, 16)


def parse_spec_out(line):
    out = {}
    for part in line.split(' '):
        k, v = part.split('=', 1)
        out[k] = v
    res = {
        'rec': [parse_form(f) for f in out['rec'].split(',') if f],
        'det': [parse_form(f) for f in out['det'].split(',') if f],
        'obs': {},
        'probe': [None if f == '?' else parse_form(f) for f in out['probe'].split(',') if f],
        'ncoins': int(out['ncoins']),
    }
    for item in out['obs'].split(','):
        if item:
            i, f = item.split('=')
            res['obs'][int(i)] = parse_form(f)
    return res
