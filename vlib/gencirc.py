"""Random circuit generator shared by the semantic properties (C01-C06, C13, C14, C18).
Every choice comes from the Random object passed in; circuits are lists of stimtext.Instr (REPEAT nested)."""
from . import gatetable as gt
from .stimtext import Instr, T

F = gt.F


class Profile:
    def __init__(self, **kw):
        self.n_choices = [1, 2, 3, 4, 5]
        self.len_range = (3, 25)
        self.repeat = True
        self.feedback = True
        self.sweep = False
        self.noise = False
        self.spp = True
        self.mpp = True
        self.pair_meas = True
        self.resets = True
        self.measure_noise = False
        self.heralded = False
        self.aliases = True
        self.index_map = None        # list of physical indices to place logical qubits on
        self.annotations = False     # random DETECTOR / OBSERVABLE_INCLUDE (not necessarily deterministic)
        self.obs_pauli = False
        self.__dict__.update(kw)


def gate_pools(gates):
    u1, u2 = [], []
    for g in gates:
        if g.flags & F['UNITARY'] and len(g.flows) == 2:
            u1.append(g)
        elif g.flags & F['UNITARY'] and len(g.flows) == 4:
            u2.append(g)
    return u1, u2


def pick_name(rng, g, prof):
    if prof.aliases and g.aliases and rng.random() < 0.3:
        return rng.choice(g.aliases)
    return g.name


def qmap(prof, q):
    return prof.index_map[q] if prof.index_map else q


def gen_block(rng, gates, prof, n, length, meas_avail, depth, sweep_count):
    """returns (instrs, measurements added per single execution)"""
    u1, u2 = gate_pools(gates)
    out = []
    added = 0
    Q = lambda: qmap(prof, rng.randrange(n))

    def pair():
        a = rng.randrange(n)
        b = rng.randrange(n)
        while b == a:
            b = rng.randrange(n)
        return qmap(prof, a), qmap(prof, b)

    kinds = ['u1'] * 5 + ['u2'] * (5 if n >= 2 else 0) + ['m'] * 3
    if prof.resets:
        kinds += ['r', 'mr']
    if prof.pair_meas and n >= 2:
        kinds += ['mpair']
    if prof.mpp:
        kinds += ['mpp']
    if prof.spp:
        kinds += ['spp']
    if prof.feedback:
        kinds += ['fb']
    if prof.sweep:
        kinds += ['sweep']
    if prof.repeat and depth < 2:
        kinds += ['repeat']
    kinds += ['mpad', 'tick']
    if prof.noise:
        kinds += ['noise'] * 4
    if prof.annotations:
        kinds += ['det'] * 3 + ['obs']
    for _ in range(length):
        k = rng.choice(kinds)
        avail = meas_avail + added
        if k == 'u1':
            g = rng.choice(u1)
            cnt = rng.choice([1, 1, 2, 3])
            ts = [T('q', Q()) for _ in range(cnt)]
            if rng.random() < 0.2:
                ts.append(T('q', ts[0].val))
            out.append(Instr(pick_name(rng, g, prof), [], ts))
        elif k == 'u2':
            g = rng.choice(u2)
            ts = []
            for _ in range(rng.choice([1, 1, 2, 3])):
                a, b = pair()
                ts += [T('q', a), T('q', b)]
            if rng.random() < 0.25:
                r = rng.random()
                if r < 0.4:
                    ts += [T('q', ts[1].val), T('q', ts[0].val)]
                elif r < 0.7:
                    ts += [T('q', ts[0].val), T('q', ts[1].val)]
                else:
                    c = Q()
                    if c != ts[1].val:
                        ts += [T('q', ts[1].val), T('q', c)]
            out.append(Instr(pick_name(rng, g, prof), [], ts))
        elif k in ('m', 'mr'):
            base = rng.choice(['M', 'MX', 'MY']) if k == 'm' else rng.choice(['MR', 'MRX', 'MRY'])
            cnt = rng.choice([1, 1, 2, 3])
            ts = [T('q', Q(), inv=rng.random() < 0.25) for _ in range(cnt)]
            if rng.random() < 0.25:
                ts.append(T('q', ts[0].val, inv=rng.random() < 0.5))
            args = [rng.choice(NOISE_P)] if prof.measure_noise and rng.random() < 0.5 else []
            nm = {'M': ['M', 'MZ'], 'MR': ['MR', 'MRZ']}.get(base, [base])
            out.append(Instr(rng.choice(nm) if prof.aliases else base, args, ts))
            added += len(ts)
        elif k == 'r':
            base = rng.choice(['R', 'RX', 'RY'])
            ts = [T('q', Q()) for _ in range(rng.choice([1, 1, 2]))]
            if rng.random() < 0.25:
                ts.append(T('q', ts[0].val))
            out.append(Instr(base, [], ts))
        elif k == 'mpair':
            base = rng.choice(['MXX', 'MYY', 'MZZ'])
            ts = []
            for _ in range(rng.choice([1, 1, 2])):
                a, b = pair()
                ts += [T('q', a, inv=rng.random() < 0.2), T('q', b, inv=rng.random() < 0.2)]
            if rng.random() < 0.3 and n >= 2:
                ts += [T('q', ts[1].val), T('q', ts[0].val)]
            args = [rng.choice(NOISE_P)] if prof.measure_noise and rng.random() < 0.5 else []
            out.append(Instr(base, args, ts))
            added += len(ts) // 2
        elif k in ('mpp', 'spp'):
            ts = []
            nprod = rng.choice([1, 1, 2, 3])
            for pi in range(nprod):
                w = rng.choice([1, 2, 2, 3])
                qs = [rng.randrange(n) for _ in range(w)]
                if rng.random() < 0.8:
                    qs = list(dict.fromkeys(qs))
                terms = []
                used = {}
                for q in qs:
                    p = rng.choice('XYZ')
                    if q in used:
                        p = used[q]          # repeated qubit: same Pauli (cancels), keeps the product Hermitian
                    used[q] = p
                    terms.append(T('pauli', qmap(prof, q), inv=rng.random() < 0.15, pauli=p))
                for j, t in enumerate(terms):
                    if j:
                        ts.append(T('comb'))
                    ts.append(t)
            if k == 'mpp':
                args = [rng.choice(NOISE_P)] if prof.measure_noise and rng.random() < 0.5 else []
                out.append(Instr('MPP', args, ts))
                added += nprod
            else:
                out.append(Instr(rng.choice(['SPP', 'SPP_DAG']), [], ts))
        elif k == 'fb':
            if avail == 0:
                continue
            nm = rng.choice(['CX', 'CY', 'CZ', 'CZ', 'XCZ', 'YCZ', 'ZCX', 'CNOT', 'ZCY', 'ZCZ'])
            canon = {'ZCX': 'CX', 'CNOT': 'CX', 'ZCY': 'CY', 'ZCZ': 'CZ'}.get(nm, nm)
            ts = []
            for _ in range(rng.choice([1, 1, 2])):
                bit = T('rec', rng.randint(1, min(avail, 6)))
                q = T('q', Q())
                if canon in ('CX', 'CY'):
                    ts += [bit, q]
                elif canon == 'CZ':
                    ts += ([bit, q] if rng.random() < 0.5 else [q, bit])
                else:
                    ts += [q, bit]
                if rng.random() < 0.3 and n >= 2:
                    a, b = pair()
                    ts += [T('q', a), T('q', b)]
            out.append(Instr(nm if prof.aliases else canon, [], ts))
        elif k == 'sweep':
            nm = rng.choice(['CX', 'CY', 'CZ', 'XCZ', 'YCZ'])
            bit = T('sweep', rng.randrange(sweep_count))
            q = T('q', Q())
            if nm in ('CX', 'CY'):
                ts = [bit, q]
            elif nm == 'CZ':
                ts = [bit, q] if rng.random() < 0.5 else [q, bit]
            else:
                ts = [q, bit]
            out.append(Instr(nm, [], ts))
        elif k == 'tick':
            if rng.random() < 0.4:
                out.append(Instr('TICK'))
        elif k == 'mpad':
            if rng.random() < 0.3:
                ts = [T('q', rng.randrange(2)) for _ in range(rng.choice([1, 2]))]
                out.append(Instr('MPAD', [], ts))
                added += len(ts)
        elif k == 'repeat':
            body, badd = gen_block(rng, gates, prof, n, rng.randint(1, 5), avail, depth + 1, sweep_count)
            if not body:
                continue
            reps = rng.choice([1, 2, 3, 5])
            out.append(Instr('REPEAT', body=body, reps=reps))
            added += badd * reps
        elif k == 'noise':
            out.append(gen_noise(rng, prof, n))
        elif k in ('det', 'obs'):
            if avail == 0:
                continue
            cnt = rng.choice([1, 2, 2, 3, 4])
            far = rng.random() < 0.2
            ts = [T('rec', rng.randint(1, avail if far else min(avail, 6))) for _ in range(cnt)]
            if rng.random() < 0.15:
                ts.append(T('rec', ts[0].val))          # duplicate lookback cancels
            if k == 'det':
                args = [float(rng.randrange(4)) for _ in range(rng.choice([0, 0, 2, 3]))]
                out.append(Instr('DETECTOR', args, ts))
            else:
                if prof.obs_pauli and rng.random() < 0.3:
                    ts.append(T('pauli', Q(), pauli=rng.choice('XYZ')))
                out.append(Instr('OBSERVABLE_INCLUDE', [float(rng.choice([0, 0, 1, 2, 5, 9]))], ts))
    return out, added


NOISE_P = [0.0, 0.001, 0.0199, 0.02, 0.125, 0.3, 0.5]


def gen_noise(rng, prof, n):
    Q = lambda: qmap(prof, rng.randrange(n))
    kinds = ['X_ERROR', 'Y_ERROR', 'Z_ERROR', 'DEPOLARIZE1', 'PAULI_CHANNEL_1', 'E']
    if n >= 2:
        kinds += ['DEPOLARIZE2', 'PAULI_CHANNEL_2']
    if prof.heralded:
        kinds += ['HERALDED_ERASE', 'HERALDED_PAULI_CHANNEL_1']
    k = rng.choice(kinds)
    if k in ('X_ERROR', 'Y_ERROR', 'Z_ERROR', 'DEPOLARIZE1'):
        return Instr(k, [rng.choice(NOISE_P)], [T('q', Q()) for _ in range(rng.choice([1, 2]))])
    def pairs():
        ts = []
        for _ in range(rng.choice([1, 1, 2])):
            a = rng.randrange(n)
            b = (a + 1 + rng.randrange(n - 1)) % n
            ts += [T('q', qmap(prof, a)), T('q', qmap(prof, b))]
        return ts
    if k == 'PAULI_CHANNEL_1':
        return Instr(k, [rng.choice([0, 0.01, 0.125]) for _ in range(3)], [T('q', Q()) for _ in range(rng.choice([1, 1, 2, 3]))])
    if k == 'DEPOLARIZE2':
        return Instr(k, [rng.choice(NOISE_P)], pairs())
    if k == 'PAULI_CHANNEL_2':
        return Instr(k, [rng.choice([0, 0, 0.01, 0.03125]) for _ in range(15)], pairs())
    if k == 'E':
        qs = rng.sample(range(n), min(n, rng.choice([1, 2])))
        return Instr('E', [rng.choice(NOISE_P)], [T('pauli', qmap(prof, q), pauli=rng.choice('XYZ')) for q in qs])
    if k == 'HERALDED_ERASE':
        return Instr(k, [rng.choice(NOISE_P)], [T('q', Q()) for _ in range(rng.choice([1, 1, 2, 3]))])
    return Instr(k, [rng.choice([0, 0.01, 0.125]) for _ in range(4)], [T('q', Q()) for _ in range(rng.choice([1, 1, 2, 3]))])


def gen_circuit(rng, gates, prof=None, sweep_count=3):
    prof = prof or Profile()
    n = rng.choice(prof.n_choices)
    length = rng.randint(*prof.len_range)
    body, added = gen_block(rng, gates, prof, n, length, 0, 0, sweep_count)
    return n, body
