"""Tie G for the arithmetic of stim::biased_randomize_bits (probability_util.cc): branch thresholds, the split of the probability
into an 8-bit truncated part and a leftover, and the probability of the correcting rare-error pass are translated (Python ast
over the C expressions) into Gallina over Q in coq/Gen_Brb.v; GenProofs_Brb.v proves by `field` that truncated part OR
correction has exactly the requested probability."""
import ast
import os
import re

from . import core, cxx

SRC = 'src/stim/util_bot/probability_util.cc'
VARS = ('probability', 'BUCKETS', 'raised', 'raised_floor', 'raised_leftover', 'p_truncated', 'p_leftover')


def to_q(node):
    if isinstance(node, ast.Expression):
        return to_q(node.body)
    if isinstance(node, ast.BinOp):
        ops = {ast.Add: '+', ast.Sub: '-', ast.Mult: '*', ast.Div: '/'}
        if type(node.op) not in ops:
            raise cxx.Refuse('operator not supported')
        return '(%s %s %s)' % (to_q(node.left), ops[type(node.op)], to_q(node.right))
    if isinstance(node, ast.Name) and node.id in VARS:
        return node.id
    if isinstance(node, ast.Constant) and isinstance(node.value, int) and node.value >= 0:
        return '(%d # 1)' % node.value
    raise cxx.Refuse('expression not supported: ' + ast.dump(node)[:80])


def generate(repo=None):
    repo = repo or core.REPO
    src = cxx.strip_comments(open(os.path.join(repo, SRC)).read())
    refused = []
    defs = {}
    facts = dict(gt_half_recurses_on_complement_and_inverts=False, half_copies_rng=False, below_002_is_rare_only=False,
                 coin_flips_8=False, floor_is_floorf=False, top_bits_is_floor=False, correction_is_rare_or=False,
                 rare_next_is_candidate_plus_gap=False, rare_p0_none_p1_all=False, rare_dist_is_geometric_p=False,
                 for_samples_visits_hits_below_n=False)
    try:
        got = list(cxx.function_bodies(src, r'void stim::biased_randomize_bits\(float probability, uint64_t \*start, uint64_t \*end, std::mt19937_64 &rng\)\s*\{'))
        if len(got) != 1:
            raise cxx.Refuse('definition not found')
        b = ' '.join(got[0][1].split())
        facts['gt_half_recurses_on_complement_and_inverts'] = b.startswith(
            'if (probability > 0.5) { biased_randomize_bits(1 - probability, start, end, rng); while (start != end) { *start ^= UINT64_MAX; start++; } }')
        facts['half_copies_rng'] = 'else if (probability == 0.5) { while (start != end) { *start = rng(); start++; } }' in b
        facts['below_002_is_rare_only'] = ('else if (probability < 0.02) { size_t n = (end - start) << 6; memset(start, 0, n >> 3); '
                                           'RareErrorIterator::for_samples(probability, n, rng, [&](size_t s) { start[s >> 6] |= uint64_t{1} << (s & 63); }); }') in b
        facts['coin_flips_8'] = 'constexpr size_t COIN_FLIPS = 8; constexpr float BUCKETS = (float)(1 << COIN_FLIPS);' in b
        facts['floor_is_floorf'] = 'float raised_floor = floorf(raised);' in b
        facts['top_bits_is_floor'] = 'uint64_t p_top_bits = (uint64_t)raised_floor;' in b
        for name in ('raised', 'raised_leftover', 'p_truncated', 'p_leftover'):
            m = re.search(r'float %s = ([^;]+);' % name, b)
            if not m:
                raise cxx.Refuse('assignment of %s not found' % name)
            defs[name] = to_q(ast.parse(m.group(1).strip(), mode='eval'))
        m = re.search(r'RareErrorIterator::for_samples\(([^,]+), n, rng, \[&\]\(size_t s\) \{ start\[s >> 6\] \|= uint64_t\{1\} << \(s & 63\); \}\);( \})*$', b)
        if not m:
            raise cxx.Refuse('correcting pass not found')
        facts['correction_is_rare_or'] = True
        defs['correction'] = to_q(ast.parse(m.group(1).strip(), mode='eval'))
        # the rare-error iterator: hit = candidate + (number of failures before the next success); next candidate = hit + 1
        got = list(cxx.function_bodies(src, r'size_t RareErrorIterator::next\(std::mt19937_64 &rng\)\s*\{'))
        if len(got) == 1:
            nb = ' '.join(got[0][1].split())
            facts['rare_p0_none_p1_all'] = nb.startswith('if (probability == 0) { return SIZE_MAX; } else if (probability == 1) { return next_candidate++; }')
            facts['rare_next_is_candidate_plus_gap'] = 'else { size_t result = next_candidate + dist(rng); next_candidate = result + 1; return result; }' in nb
        got = list(cxx.function_bodies(src, r'RareErrorIterator::RareErrorIterator\(float probability\)\s*:\s*next_candidate\(0\), probability\(probability\)\s*\{'))
        if len(got) == 1:
            cb = ' '.join(got[0][1].split())
            facts['rare_dist_is_geometric_p'] = 'if (0 < probability && probability < 1) { dist = std::geometric_distribution<size_t>(probability); }' in cb
        hdr = cxx.strip_comments(open(os.path.join(repo, 'src/stim/util_bot/probability_util.h')).read())
        hb = ' '.join(hdr.split())
        facts['for_samples_visits_hits_below_n'] = ('inline static void for_samples(double p, size_t n, std::mt19937_64 &rng, BODY body) { if (p == 0) { return; } '
                                                    'RareErrorIterator skipper((float)p); while (true) { size_t s = skipper.next(rng); if (s >= n) { break; } body(s); } }') in hb
    except (cxx.Refuse, SyntaxError) as e:
        refused.append(('biased_randomize_bits', str(e)))
    d = lambda k: defs.get(k, '0')
    out = ['(* GENERATED by vlib/gen_brb.py from %s of the working tree. *)' % SRC,
           'From Coq Require Import List String QArith.', 'Import ListNotations.', 'Local Open Scope Q_scope.',
           '(* the assignments of the coin-flip branch, each as a function of the variables it reads *)',
           'Definition brb_raised (probability BUCKETS : Q) : Q := %s.' % d('raised'),
           'Definition brb_raised_leftover (raised raised_floor : Q) : Q := %s.' % d('raised_leftover'),
           'Definition brb_p_truncated (raised_floor BUCKETS : Q) : Q := %s.' % d('p_truncated'),
           'Definition brb_p_leftover (raised_leftover BUCKETS : Q) : Q := %s.' % d('p_leftover'),
           'Definition brb_correction (p_leftover p_truncated : Q) : Q := %s.' % d('correction'),
           'Definition brb_facts : list (string * bool) := [%s]%%list.' % '; '.join('("%s"%%string, %s)' % (k, 'true' if v else 'false') for k, v in facts.items()),
           'Definition brb_refused : list (string * string) := [%s]%%list.' % '; '.join('("%s"%%string, "%s"%%string)' % (a, c.replace('"', "'")) for a, c in refused)]
    core.write_if_changed(os.path.join(core.COQ, 'Gen_Brb.v'), '\n'.join(out) + '\n')
    return {'defs': defs, 'facts': facts, 'refused': refused}


if __name__ == '__main__':
    print(generate())
