"""Tie G, part 2: a deliberately narrow translator from the C++ subset used by Stim's per-gate bit routines
to Gallina boolean functions. Anything outside the grammar raises Refuse (recorded per routine, never skipped
silently)."""
import re


class Refuse(Exception):
    pass


TOK = re.compile(r'\s*(&&|\|\||==|!=|\^=|\|=|&=|[!~&|^()=,;.]|true|false|[A-Za-z_]\w*(?:\[[\w ]+\])?)')
PREC = {'||': 1, '&&': 2, '|': 3, '^': 4, '&': 5, '==': 6, '!=': 6}
OPF = {'||': 'orb', '&&': 'andb', '|': 'orb', '^': 'xorb', '&': 'andb', '==': 'Bool.eqb', '!=': 'xorb'}


def strip_comments(src):
    src = re.sub(r'//[^\n]*', '', src)
    src = re.sub(r'/\*.*?\*/', '', src, flags=re.S)
    return src


def tokenize(s):
    out = []
    i = 0
    s = s.strip()
    while i < len(s):
        m = TOK.match(s, i)
        if not m:
            raise Refuse('cannot tokenize: ' + s[i:i + 30])
        out.append(m.group(1))
        i = m.end()
    return out


class Env:
    """locations: name -> current Gallina variable; aliases: C++ reference name -> location name."""

    def __init__(self, locs):
        self.cur = dict(locs)        # location -> gallina var holding its current value
        self.alias = {}              # c++ name -> location
        self.vals = {}               # c++ value variable -> gallina var
        self.lets = []
        self.n = 0

    def fresh(self, base):
        self.n += 1
        return '%s_%d' % (re.sub(r'\W', '', base), self.n)

    def loc_of(self, name):
        name = name.replace(' ', '')
        if name in self.alias:
            return self.alias[name]
        if name in self.cur:
            return name
        return None

    def read(self, name):
        name = name.replace(' ', '')
        l = self.loc_of(name)
        if l is not None:
            return self.cur[l]
        if name in self.vals:
            return self.vals[name]
        raise Refuse('unknown identifier ' + name)

    def write(self, name, e):
        l = self.loc_of(name)
        if l is None:
            if name in self.vals:
                v = self.fresh(name)
                self.lets.append('let %s := %s in' % (v, e))
                self.vals[name] = v
                return
            raise Refuse('assignment to unknown ' + name)
        v = self.fresh(l)
        self.lets.append('let %s := %s in' % (v, e))
        self.cur[l] = v

    def declare_val(self, name, e):
        v = self.fresh(name)
        self.lets.append('let %s := %s in' % (v, e))
        self.vals[name] = v

    def swap(self, a, b):
        la, lb = self.loc_of(a), self.loc_of(b)
        if la is None or lb is None:
            raise Refuse('swap of non-locations %s %s' % (a, b))
        self.cur[la], self.cur[lb] = self.cur[lb], self.cur[la]


def parse_expr(toks, env, minp=0):
    lhs = parse_unary(toks, env)
    while toks and toks[0] in PREC and PREC[toks[0]] >= minp:
        op = toks.pop(0)
        rhs = parse_expr(toks, env, PREC[op] + 1)
        lhs = '(%s %s %s)' % (OPF[op], lhs, rhs)
    return lhs


def parse_unary(toks, env):
    if not toks:
        raise Refuse('unexpected end of expression')
    t = toks.pop(0)
    if t in ('!', '~'):
        return '(negb %s)' % parse_unary(toks, env)
    if t == '(':
        e = parse_expr(toks, env)
        if not toks or toks.pop(0) != ')':
            raise Refuse('missing )')
        return parse_postfix(e, toks, env)
    if t in ('true', 'false'):
        return t
    if not re.match(r'[A-Za-z_]', t):
        raise Refuse('unexpected token ' + t)
    return parse_postfix(env.read(t), toks, env)


def parse_postfix(e, toks, env):
    # a.andnot(b)  ==  (~a) & b   (simd_word::andnot as defined in bitword.h: "(~*this) & other")
    while len(toks) >= 2 and toks[0] == '.' and toks[1] == 'andnot':
        toks.pop(0)
        toks.pop(0)
        if toks.pop(0) != '(':
            raise Refuse('andnot syntax')
        arg = parse_expr(toks, env)
        if toks.pop(0) != ')':
            raise Refuse('andnot syntax')
        e = '(andb (negb %s) %s)' % (e, arg)
    return e


def expr(s, env):
    toks = tokenize(s)
    e = parse_expr(toks, env)
    if toks:
        raise Refuse('trailing tokens in expression: ' + ' '.join(toks))
    return e


def statements(body):
    """split a block body (no nested control flow expected) into ';'-terminated statements"""
    body = strip_comments(body)
    return [s.strip() for s in body.split(';') if s.strip()]


DECL_REF = re.compile(r'(?:bit_ref|simd_word<W>\s*&|auto\s*&|simd_bits_range_ref<W>)\s*(.*)$', re.S)
DECL_VAL = re.compile(r'(?:auto|bool|simd_word<W>|const auto|const bool)\s+(\w+)\s*=\s*(.*)$', re.S)


def run_statements(stmts, env, index_role, ignore=()):
    """index_role: maps index identifiers (q, q1, c, t, ...) to role suffixes ('', '1', '2')."""
    def loc_name(arr, idx):
        idx = idx.strip()
        if idx not in index_role:
            raise Refuse('unknown index ' + idx)
        base = {'xs': 'x', 'zs': 'z', 'x_table': 'x', 'z_table': 'z'}.get(arr)
        if base is None:
            raise Refuse('unknown array ' + arr)
        return base + index_role[idx]

    def subst_arrays(s):
        # rewrite xs[q1] -> x1 style location names so the expression parser sees plain identifiers
        return re.sub(r'\b(xs|zs|x_table|z_table)\[\s*(\w+)\s*\]', lambda m: loc_name(m.group(1), m.group(2)), s)

    for st in stmts:
        st = ' '.join(st.split())
        if any(re.fullmatch(p, st) for p in ignore):
            continue
        if re.fullmatch(r'assert\(.*\)', st):
            continue
        m = DECL_REF.match(st)
        if m and not st.startswith('auto ') or (m and st.startswith('auto &')):
            for part in m.group(1).split(','):
                mm = re.fullmatch(r'\s*&?\s*(\w+)\s*=\s*(\w+)\[\s*(\w+)\s*\]\s*', part)
                if not mm:
                    raise Refuse('reference declaration: ' + part)
                env.alias[mm.group(1)] = loc_name(mm.group(2), mm.group(3))
            continue
        m = DECL_VAL.match(st)
        if m:
            env.declare_val(m.group(1), expr(subst_arrays(m.group(2)), env))
            continue
        st2 = subst_arrays(st)
        m = re.fullmatch(r'(\w+) \^= (.*)', st2)
        if m:
            env.write(m.group(1), '(xorb %s %s)' % (env.read(m.group(1)), expr(m.group(2), env)))
            continue
        m = re.fullmatch(r'(\w+) \|= (.*)', st2)
        if m:
            env.write(m.group(1), '(orb %s %s)' % (env.read(m.group(1)), expr(m.group(2), env)))
            continue
        m = re.fullmatch(r'(\w+) &= (.*)', st2)
        if m:
            env.write(m.group(1), '(andb %s %s)' % (env.read(m.group(1)), expr(m.group(2), env)))
            continue
        m = re.fullmatch(r'(\w+) = (.*)', st2)
        if m:
            env.write(m.group(1), expr(m.group(2), env))
            continue
        m = re.fullmatch(r'(\w+)\.swap_with\((\w+)\)', st2)
        if m:
            env.swap(m.group(1), m.group(2))
            continue
        m = re.fullmatch(r'std::swap\((\w+), (\w+)\)', st2)
        if m:
            env.swap(m.group(1), m.group(2))
            continue
        raise Refuse('unsupported statement: ' + st)


def match_brace(src, open_idx):
    """index of the '}' matching the '{' at open_idx"""
    depth = 0
    for k in range(open_idx, len(src)):
        if src[k] == '{':
            depth += 1
        elif src[k] == '}':
            depth -= 1
            if depth == 0:
                return k
    raise Refuse('unbalanced braces')


def function_bodies(src, pattern):
    """yield (match, body_text) for each function whose header matches `pattern` (ending just before '{')"""
    for m in re.finditer(pattern, src):
        ob = src.index('{', m.end() - 1)
        cb = match_brace(src, ob)
        yield m, src[ob + 1:cb]


def switch_table(body):
    """Parse `case GateType::A: case GateType::B: stmt; ...; break;` groups inside a switch body.
    Returns list of (gate_name, [statements]). Braces at parenthesis depth 0 are block delimiters; inside
    parentheses (lambdas passed as arguments) everything belongs to the statement."""
    body = strip_comments(body)
    items = []          # ('case', name) | ('default',) | ('stmt', text)
    pos = 0
    n = len(body)
    case_re = re.compile(r'\s*case\s+GateType::(\w+)\s*:')
    default_re = re.compile(r'\s*default\s*:')
    while pos < n:
        m = case_re.match(body, pos)
        if m:
            items.append(('case', m.group(1)))
            pos = m.end()
            continue
        m = default_re.match(body, pos)
        if m:
            items.append(('default',))
            pos = m.end()
            continue
        c = body[pos]
        if c.isspace() or c in '{}':
            pos += 1
            continue
        depth = 0
        k = pos
        while k < n:
            ch = body[k]
            if ch == '(':
                depth += 1
            elif ch == ')':
                depth -= 1
            elif ch == ';' and depth == 0:
                break
            k += 1
        items.append(('stmt', ' '.join(body[pos:k].split())))
        pos = k + 1
    out = []
    pending = []
    group = None
    for it in items:
        if it[0] == 'case':
            if group is not None and group and group[-1] not in ('break', 'return') and not group[-1].startswith('throw') \
                    and not group[-1].startswith('return'):
                # fall-through into the next case label: keep accumulating into the same group as C++ does
                out.append((it[1], group))
                continue
            group = None
            pending.append(it[1])
        elif it[0] == 'default':
            pending = []
            group = []
        else:
            if group is None:
                group = []
                for g in pending:
                    out.append((g, group))
                pending = []
            group.append(it[1])
    res = []
    for g, stmts in out:
        res.append((g, [x for x in stmts if x != 'break']))
    return res
