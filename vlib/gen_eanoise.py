"""Tie G for the noise routines of ErrorAnalyzer (undo_X/Y/Z_ERROR, undo_DEPOLARIZE1/2, undo_PAULI_CHANNEL_1/2, add_composite_error):
which sensitivity sets (tracker.xs / tracker.zs of which target) are XORed for which argument of the instruction.
coq/Gen_EaNoise.v lists, per routine, the terms (probability label, sets); the index arithmetic of PAULI_CHANNEL_2
(pauli_xyz_to_xz and the k -> k2 formula) is translated to Gallina through Python's expression parser (C and Python agree on the
precedence of + << >> & ^ |). GenProofs_EaNoise.v proves every term flips exactly the detectors whose observable anticommutes
with the documented Pauli of that argument."""
import ast
import os
import re

from . import core, cxx

SRC = 'src/stim/simulators/error_analyzer.cc'
PS = 'src/stim/stabilizers/pauli_string.h'


def to_gallina(node):
    """integer expression -> Gallina over N"""
    if isinstance(node, ast.Expression):
        return to_gallina(node.body)
    if isinstance(node, ast.BinOp):
        ops = {ast.BitOr: 'N.lor', ast.BitAnd: 'N.land', ast.BitXor: 'N.lxor', ast.LShift: 'N.shiftl', ast.RShift: 'N.shiftr', ast.Add: 'N.add', ast.Sub: 'N.sub', ast.Mult: 'N.mul'}
        for k, v in ops.items():
            if isinstance(node.op, k):
                return '(%s %s %s)' % (v, to_gallina(node.left), to_gallina(node.right))
        raise cxx.Refuse('operator ' + type(node.op).__name__)
    if isinstance(node, ast.Call) and isinstance(node.func, ast.Name) and len(node.args) == 1:
        return '(%s %s)' % (node.func.id, to_gallina(node.args[0]))
    if isinstance(node, ast.Name):
        return node.id
    if isinstance(node, ast.Constant) and isinstance(node.value, int):
        return '%d' % node.value
    raise cxx.Refuse('expression node ' + type(node).__name__)


def c_expr(text):
    try:
        return to_gallina(ast.parse(text.strip(), mode='eval'))
    except SyntaxError as e:
        raise cxx.Refuse('cannot parse expression %r: %s' % (text, e))


def body_of(src, pattern):
    got = list(cxx.function_bodies(src, pattern))
    if len(got) != 1:
        raise cxx.Refuse('definition not found: ' + pattern)
    return ' '.join(got[0][1].split())


def set_name(expr, q='q'):
    m = re.fullmatch(r'tracker\.(xs|zs)\[(\w+)\.data\]\.range\(\)', expr.strip())
    if not m:
        raise cxx.Refuse('basis set ' + expr)
    return m.group(1), m.group(2)


def combos(probs, basis):
    """add_error_combinations semantics: term k (1 <= k < 2^s) has probability probs[k] and XORs basis[j] for every set bit j of k"""
    out = []
    for k in range(1, 1 << len(basis)):
        out.append((probs[k], [basis[j] for j in range(len(basis)) if (k >> j) & 1]))
    return out


def split_args(text):
    """split on top-level commas"""
    out, depth, cur = [], 0, ''
    for ch in text:
        if ch in '({[<':
            depth += 1
        elif ch in ')}]>':
            depth -= 1
        if ch == ',' and depth == 0:
            out.append(cur.strip())
            cur = ''
        else:
            cur += ch
    if cur.strip():
        out.append(cur.strip())
    return out


def generate(repo=None):
    repo = repo or core.REPO
    src = cxx.strip_comments(open(os.path.join(repo, SRC)).read())
    ps = cxx.strip_comments(open(os.path.join(repo, PS)).read())
    refused = []
    rows = []        # (gate, [(prob label, [set names])])
    defs = []
    guard = 'if (!accumulate_errors) { return; } '
    # single-qubit Pauli errors
    for gate, fn in [('X_ERROR', 'undo_X_ERROR'), ('Y_ERROR', 'undo_Y_ERROR'), ('Z_ERROR', 'undo_Z_ERROR')]:
        try:
            b = body_of(src, r'void ErrorAnalyzer::%s\(const CircuitInstruction &inst\)\s*\{' % fn)
            if not b.startswith(guard):
                raise cxx.Refuse('missing accumulate_errors guard')
            b = b[len(guard):]
            m = re.fullmatch(r'for \(auto q : inst\.targets\) \{ add_error\(inst\.args\[0\], (.*?), inst\.tag\); \}', b)
            m2 = re.fullmatch(r'for \(auto q : inst\.targets\) \{ add_xored_error\(inst\.args\[0\], (.*?), (.*?), inst\.tag\); \}', b)
            if m:
                rows.append((gate, [('arg0', [set_name(m.group(1))[0]])]))
            elif m2:
                rows.append((gate, [('arg0', [set_name(m2.group(1))[0], set_name(m2.group(2))[0]])]))
            else:
                raise cxx.Refuse('body: ' + b[:150])
        except cxx.Refuse as e:
            refused.append((fn, str(e)))
    # E / ELSE_CORRELATED_ERROR products
    try:
        b = body_of(src, r'void ErrorAnalyzer::add_composite_error\(double probability, SpanRef<const GateTarget> targets, std::string_view tag\)\s*\{')
        want = (guard + 'for (auto qp : targets) { auto q = qp.qubit_value(); if (qp.data & TARGET_PAULI_Z_BIT) { inplace_xor_tail(mono_buf, '
                'tracker.xs[q]); } if (qp.data & TARGET_PAULI_X_BIT) { inplace_xor_tail(mono_buf, tracker.zs[q]); } } '
                'add_error_in_sorted_jagged_tail(probability, tag);')
        if b != want:
            raise cxx.Refuse('body differs from "Z component -> xs, X component -> zs"')
        rows.append(('E', [('Zbit', ['xs']), ('Xbit', ['zs'])]))
    except cxx.Refuse as e:
        refused.append(('add_composite_error', str(e)))
    # DEPOLARIZE1
    try:
        b = body_of(src, r'void ErrorAnalyzer::undo_DEPOLARIZE1\(const CircuitInstruction &inst\)\s*\{')
        m = re.search(r'for \(auto q : inst\.targets\) \{ add_error_combinations<2>\( \{(.*?)\}, \{ (.*?), (.*?), \}, false, inst\.tag\); \}$', b)
        if not m:
            raise cxx.Refuse('call shape')
        probs = split_args(m.group(1))
        basis = [set_name(m.group(2))[0], set_name(m.group(3))[0]]
        if probs[0] != '0' or len(probs) != 4:
            raise cxx.Refuse('probability list')
        rows.append(('DEPOLARIZE1', combos(probs, basis)))
    except cxx.Refuse as e:
        refused.append(('undo_DEPOLARIZE1', str(e)))
    # PAULI_CHANNEL_1
    try:
        b = body_of(src, r'void ErrorAnalyzer::undo_PAULI_CHANNEL_1\(const CircuitInstruction &inst\)\s*\{')
        for need in ['double dx = inst.args[0];', 'double dy = inst.args[1];', 'double dz = inst.args[2];', 'ix = dx;', 'iy = dy;', 'iz = dz;',
                     'try_disjoint_to_independent_xyz_errors_approx(dx, dy, dz, &ix, &iy, &iz)']:
            if need not in b:
                raise cxx.Refuse('expected statement missing: ' + need)
        m = re.search(r'for \(auto q : inst\.targets\) \{ add_error_combinations<2>\( \{(.*?)\}, \{ (.*?), (.*?), \}, !is_independent, inst\.tag\); \}$', b)
        if not m:
            raise cxx.Refuse('call shape')
        probs = split_args(m.group(1))
        basis = [set_name(m.group(2))[0], set_name(m.group(3))[0]]
        label = {'ix': 'X', 'iy': 'Y', 'iz': 'Z', '0': '0'}
        rows.append(('PAULI_CHANNEL_1', combos([label[p] for p in probs], basis)))
    except (cxx.Refuse, KeyError) as e:
        refused.append(('undo_PAULI_CHANNEL_1', str(e)))
    # DEPOLARIZE2 / PAULI_CHANNEL_2
    for gate, fn in [('DEPOLARIZE2', 'undo_DEPOLARIZE2'), ('PAULI_CHANNEL_2', 'undo_PAULI_CHANNEL_2')]:
        try:
            b = body_of(src, r'void ErrorAnalyzer::%s\(const CircuitInstruction &inst\)\s*\{' % fn)
            m = re.search(r'for \(size_t i = 0; i < inst\.targets\.size\(\); i \+= 2\) \{ auto a = inst\.targets\[i\]; auto b = inst\.targets\[i \+ 1\]; '
                          r'add_error_combinations<4>\( (.*?), \{ (.*?), (.*?), (.*?), (.*?), \}, (false|true), inst\.tag\); \}$', b)
            if not m:
                raise cxx.Refuse('call shape')
            basis = ['%s_%s' % set_name(m.group(k)) for k in (2, 3, 4, 5)]
            if gate == 'DEPOLARIZE2':
                probs = split_args(m.group(1).strip('{}'))
                if probs[0] != '0' or len(probs) != 16 or any(p != 'p' for p in probs[1:]):
                    raise cxx.Refuse('probability list')
                rows.append((gate, combos(['0'] + ['p'] * 15, basis)))
            else:
                mm = re.search(r'std::array<double, 16> probabilities; for \(size_t k = 0; k < 15; k\+\+\) \{ size_t k2 = (.*?); probabilities\[k2\] = inst\.args\[k\]; \}', b)
                if not mm or m.group(1) != 'probabilities':
                    raise cxx.Refuse('probability table construction')
                defs.append('Definition pc2_index (k : N) : N := %s.' % c_expr(mm.group(1)))
                # combination index c (1..15) -> basis sets; the probability label is "the argument whose pc2_index is c" (resolved in Coq)
                rows.append((gate, [('idx%d' % c, sets) for c, (p, sets) in enumerate(combos([str(k) for k in range(16)], basis), 1)]))
        except cxx.Refuse as e:
            refused.append((fn, str(e)))
    # heralded channels: basis (xs, zs, herald record)
    for gate, fn in [('HERALDED_ERASE', 'undo_HERALDED_ERASE'), ('HERALDED_PAULI_CHANNEL_1', 'undo_HERALDED_PAULI_CHANNEL_1')]:
        try:
            b = body_of(src, r'void ErrorAnalyzer::%s\(const CircuitInstruction &inst\)\s*\{' % fn)
            m = re.search(r'add_error_combinations<3>\( \{(.*?)\}, \{tracker\.(xs|zs)\[q\]\.range\(\), tracker\.(xs|zs)\[q\]\.range\(\), herald_symptoms\.range\(\)\}, true, inst\.tag\);', b)
            if not m:
                raise cxx.Refuse('call shape')
            for need in ['auto q = inst.targets[k].qubit_value();', 'tracker.num_measurements_in_past--;',
                         'SparseXorVec<DemTarget> &herald_symptoms = tracker.rec_bits[tracker.num_measurements_in_past];',
                         'tracker.rec_bits.erase(tracker.num_measurements_in_past);', 'for (size_t k = inst.targets.size(); k-- > 0;)']:
                if need not in b:
                    raise cxx.Refuse('expected statement missing: ' + need)
            probs = split_args(m.group(1))
            if len(probs) != 8:
                raise cxx.Refuse('probability list')
            if gate == 'HERALDED_ERASE':
                if 'double p = inst.args[0] * 0.25;' not in b:
                    raise cxx.Refuse('p = args[0] / 4 missing')
                label = {'0': '0', 'p': 'quarter', 'i': 'rest'}
            else:
                for need in ['double hi = inst.args[0];', 'double hx = inst.args[1];', 'double hy = inst.args[2];', 'double hz = inst.args[3];']:
                    if need not in b:
                        raise cxx.Refuse('expected statement missing: ' + need)
                label = {'0': '0', 'hi': 'I', 'hx': 'X', 'hy': 'Y', 'hz': 'Z', 'i': 'rest'}
            basis = [m.group(2), m.group(3), 'herald']
            terms = combos([label[x] for x in probs], basis)
            rows.append((gate, terms))
        except (cxx.Refuse, KeyError) as e:
            refused.append((fn, str(e)))
    # pauli_xyz_to_xz
    try:
        b = body_of(ps, r'inline uint8_t pauli_xyz_to_xz\(uint8_t xyz\)\s*\{')
        m = re.fullmatch(r'xyz \^= (.*?); return xyz;', b)
        if not m:
            raise cxx.Refuse('body: ' + b)
        defs.insert(0, 'Definition pauli_xyz_to_xz (xyz : N) : N := N.lxor xyz %s.' % c_expr(m.group(1)))
    except cxx.Refuse as e:
        refused.append(('pauli_xyz_to_xz', str(e)))
        defs.insert(0, 'Definition pauli_xyz_to_xz (xyz : N) : N := 0.')
    if not any(d.startswith('Definition pc2_index') for d in defs):
        defs.append('Definition pc2_index (k : N) : N := 0.')

    def show(gate, terms):
        return '("%s", [%s])' % (gate, '; '.join('("%s", [%s])' % (p, '; '.join('"%s"' % x for x in sets)) for p, sets in terms))
    out = ['(* GENERATED by vlib/gen_eanoise.py from %s and %s of the working tree. *)' % (SRC, PS),
           'From Coq Require Import List String Bool NArith.', 'Import ListNotations.', 'Local Open Scope N_scope.'] + defs + [
           'Local Open Scope string_scope.',
           '(* routine -> terms: (probability label, sensitivity sets XORed into the symptom). One-qubit sets: xs / zs of the target; two-qubit: xs_a zs_a xs_b zs_b *)',
           'Definition ea_noise : list (string * list (string * list string)) := [%s].' % ';\n  '.join(show(g, t) for g, t in rows),
           'Definition ea_noise_refused : list (string * string) := [%s].' % '; '.join('("%s", "%s")' % (a, c.replace('"', "'")) for a, c in refused)]
    core.write_if_changed(os.path.join(core.COQ, 'Gen_EaNoise.v'), '\n'.join(out) + '\n')
    return {'rows': len(rows), 'refused': refused}
