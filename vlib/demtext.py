"""Detector error model text: a small parser (valid text as printed by stim), flattening, canonical merged form and
the characteristic function used to compare distributions."""
import re


class DemInstr:
    __slots__ = ('kind', 'args', 'targets', 'tag', 'body', 'reps')

    def __init__(self, kind, args=(), targets=(), tag='', body=None, reps=0):
        self.kind = kind
        self.args = list(args)
        self.targets = list(targets)     # strings: 'D5', 'L0', '^', or ints for shift_detectors
        self.tag = tag
        self.body = body
        self.reps = reps


def parse(text):
    lines = text.split('\n')
    pos = [0]

    def block():
        out = []
        while pos[0] < len(lines):
            line = lines[pos[0]].split('#')[0].strip()
            pos[0] += 1
            if not line:
                continue
            if line == '}':
                return out
            m = re.match(r'([A-Za-z_]+)(\[[^\]]*\])?(\([^)]*\))?\s*(.*)$', line)
            if not m:
                raise ValueError('bad dem line ' + line)
            kind = m.group(1).lower()
            tag = m.group(2)[1:-1] if m.group(2) else ''
            args = [float(a) for a in m.group(3)[1:-1].split(',')] if m.group(3) and m.group(3)[1:-1].strip() else []
            rest = m.group(4).strip()
            if kind == 'repeat':
                reps = int(rest.rstrip('{').strip())
                out.append(DemInstr('repeat', tag=tag, body=block(), reps=reps))
                continue
            out.append(DemInstr(kind, args, rest.split(), tag))
        return out

    return block()


def flatten(instrs):
    """absolute errors (p, frozenset of symptom strings incl. duplicates cancelled), detectors with coords"""
    errors = []
    detectors = []
    state = {'doff': 0, 'coff': []}

    def shift_coords(args):
        c = state['coff']
        for k, a in enumerate(args):
            if k >= len(c):
                c.append(0.0)
            c[k] += a

    def go(l):
        for i in l:
            if i.kind == 'repeat':
                for _ in range(i.reps):
                    go(i.body)
            elif i.kind == 'error':
                s = set()
                for t in i.targets:
                    if t == '^':
                        continue
                    if t[0] == 'D':
                        t = 'D%d' % (int(t[1:]) + state['doff'])
                    if t in s:
                        s.remove(t)
                    else:
                        s.add(t)
                errors.append((i.args[0], frozenset(s)))
            elif i.kind == 'shift_detectors':
                shift_coords(i.args)
                if i.targets:
                    state['doff'] += int(i.targets[0])
            elif i.kind == 'detector':
                for t in i.targets:
                    coords = [a + (state['coff'][k] if k < len(state['coff']) else 0.0) for k, a in enumerate(i.args)]
                    detectors.append((int(t[1:]) + state['doff'], coords))
            elif i.kind == 'logical_observable':
                pass
            else:
                raise ValueError('unknown dem instruction ' + i.kind)

    go(instrs)
    return errors, detectors


def merged(errors):
    """merge mechanisms with equal symptoms by p <- p(1-q)+q(1-p); drop empty symptoms"""
    d = {}
    for p, s in errors:
        if not s:
            continue
        q = d.get(s, 0.0)
        d[s] = p * (1 - q) + q * (1 - p)
    return d


def chi_dem(errors, svec):
    """E[(-1)^{s.X}] for independent mechanisms; svec: set of symptom names"""
    v = 1.0
    for p, s in errors:
        if len(s & svec) & 1:
            v *= 1 - 2 * p
    return v


def flatten_components(instrs):
    """like flatten, but every error is (p, [component symptom sets]) with the suggested decomposition kept"""
    errors = []
    state = {'doff': 0}

    def go(l):
        for i in l:
            if i.kind == 'repeat':
                for _ in range(i.reps):
                    go(i.body)
            elif i.kind == 'error':
                comps = [set()]
                for t in i.targets:
                    if t == '^':
                        comps.append(set())
                        continue
                    if t[0] == 'D':
                        t = 'D%d' % (int(t[1:]) + state['doff'])
                    if t in comps[-1]:
                        comps[-1].remove(t)
                    else:
                        comps[-1].add(t)
                errors.append((i.args[0], [frozenset(c) for c in comps]))
            elif i.kind == 'shift_detectors':
                if i.targets:
                    state['doff'] += int(i.targets[0])

    go(instrs)
    return errors
