"""./check seeds [id ...] : run the checks against every seeded change of /verif/seeded (apply to /repo, run, undo straight afterwards)
and rewrite seeded/INDEX.md. A seeded change is caught when the check exits non-zero with a VIOLATION line."""
import json
import os
import subprocess
import sys

from . import core

SEEDED = os.path.join(core.VERIF, 'seeded')
# checks to run per seed: its own property first, then others known to see the same code
ALSO = {'C02': ['C06', 'C05'], 'C15': ['C06'], 'C04': ['C13'], 'C01': ['C02']}


def sh(cmd, **kw):
    return subprocess.run(cmd, capture_output=True, text=True, **kw)


def run_one(sid):
    d = os.path.join(SEEDED, sid)
    patch = os.path.join(d, 'patch.diff')
    meta = json.load(open(os.path.join(d, 'meta.json')))
    st = sh(['git', '-C', core.REPO, 'status', '--porcelain', '--untracked-files=no'])
    if st.stdout.strip():
        raise SystemExit('/repo has uncommitted changes to tracked files; refusing to apply a seeded change')
    ap = sh(['git', '-C', core.REPO, 'apply', patch])
    results = {}
    try:
        if ap.returncode != 0:
            return {'applies': False, 'error': ap.stderr[-400:]}
        for prop in [meta['property']] + ALSO.get(meta['property'], []):
            env = dict(os.environ)
            env['VERIF_SEED'] = env.get('VERIF_SEED', '0')
            env['VERIF_NO_EVIDENCE'] = '1'
            p = sh([os.path.join(core.VERIF, 'check'), prop, 'quick'], cwd=core.VERIF, env=env, timeout=3600)
            lines = [l for l in p.stdout.split('\n') if l.startswith('VIOLATION')]
            results[prop] = {'exit': p.returncode, 'violations': len(lines),
                             'no_failing_input_only': bool(lines) and all('no-failing-input-found' in l for l in lines),
                             'summary': (p.stdout.strip().split('\n') or [''])[-1][:200]}
            # remove the replays this run produced
            for l in lines:
                for tok in l.split():
                    if tok.startswith('replay='):
                        try:
                            os.unlink(tok[7:])
                        except OSError:
                            pass
    finally:
        sh(['git', '-C', core.REPO, 'checkout', '--', '.'])
    return {'applies': True, 'checks': results}


def main(ids):
    ids = ids or sorted(x for x in os.listdir(SEEDED) if os.path.isdir(os.path.join(SEEDED, x)))
    rows = []
    for sid in ids:
        r = run_one(sid)
        meta = json.load(open(os.path.join(SEEDED, sid, 'meta.json')))
        caught = [p for p, v in r.get('checks', {}).items() if v['exit'] != 0 and v['violations'] > 0]
        meta['checks_run'] = r
        meta['caught_by'] = caught
        json.dump(meta, open(os.path.join(SEEDED, sid, 'meta.json'), 'w'), indent=1)
        rows.append((sid, meta.get('summary', '')[:160].replace('\n', ' ').replace('|', '/'), meta.get('needs', '')[:160].replace('\n', ' ').replace('|', '/'),
                     ', '.join('%s (%d violation lines%s)' % (p, r['checks'][p]['violations'], ', no failing input' if r['checks'][p]['no_failing_input_only'] else '')
                               for p in caught) or 'NOT CAUGHT'))
        print(sid, 'caught by', caught or 'NOTHING', flush=True)
    # keep rows of seeds not re-run
    idx = os.path.join(SEEDED, 'INDEX.md')
    old = {}
    if os.path.exists(idx):
        for l in open(idx):
            if l.startswith('| C'):
                c = [x.strip() for x in l.strip().strip('|').split('|')]
                old[c[0]] = c
    for row in rows:
        old[row[0]] = list(row)
    with open(idx, 'w') as f:
        f.write('# Seeded changes and the checks that catch them\n\n'
                'Written by `./check seeds`: each `patch.diff` is applied to /repo, the listed checks are run (quick tier), and the patch is undone.\n'
                'Every seed was confirmed beforehand in a scratch worktree: it builds, the repository test suite still passes (1877 tests), its\n'
                'demonstration passes on the unchanged code and fails with the change (see each `meta.json`).\n\n'
                '| seed | change | needs | caught by |\n|---|---|---|---|\n')
        for k in sorted(old):
            f.write('| ' + ' | '.join(old[k]) + ' |\n')
    return 0


if __name__ == '__main__':
    sys.exit(main(sys.argv[1:]))
