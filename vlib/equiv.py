"""Equality in distribution of two vectors of affine sign forms (Spec.v forms: constant + mask over variables).
Variables below `base` are shared named inputs (sweep bits, fault variables) and must act identically on both sides for every
value; variables from `base` up are private fair coins. With x = c + R r + V v (v uniform) the law of x given r is uniform on the
affine space c + R r + Im V, so A ~ B for every r iff Im V_A = Im V_B, c_A + c_B in Im V and every column of R_A + R_B in Im V.
Each membership question is a GF(2) system solved by the verified solver (`consistent` command of the extracted runner,
SpecProofs.consistent_sound / consistent_complete)."""


def _bits(m):
    out = []
    k = 0
    while m:
        if m & 1:
            out.append(k)
        m >>= 1
        k += 1
    return out


def queries(A, B, base):
    """returns (list of 'consistent ...' command lines, labels). All answers must be '1'."""
    assert len(A) == len(B)
    allA = allB = 0
    for c, m in A:
        allA |= m
    for c, m in B:
        allB |= m
    coinsA = [b for b in _bits(allA) if b >= base]
    coinsB = [b for b in _bits(allB) if b >= base]
    shared = [b for b in _bits(allA | allB) if b < base]

    def rows(M, coins):
        idx = {b: k for k, b in enumerate(coins)}
        out = []
        for c, m in M:
            r = 0
            for b in _bits(m >> base):
                r |= 1 << idx[b + base]
            out.append(r)
        return out

    rowsA, rowsB = rows(A, coinsA), rows(B, coinsB)

    def member(vec, rws, nvars, label):
        # exists v: for all rows j  <rws[j], v> = vec[j]
        eqs = ' ; '.join('0:%x=%d' % (r, b) for r, b in zip(rws, vec))
        return ('consistent %d ; %s' % (max(nvars, 1), eqs), label)

    qs = []
    if not A:
        return [], []
    for b in coinsA:
        qs.append(member([(m >> b) & 1 for c, m in A], rowsB, len(coinsB), 'coin %d of the first is not reproduced by the second' % (b - base)))
    for b in coinsB:
        qs.append(member([(m >> b) & 1 for c, m in B], rowsA, len(coinsA), 'coin %d of the second is not reproduced by the first' % (b - base)))
    qs.append(member([ca ^ cb for (ca, ma), (cb, mb) in zip(A, B)], rowsB, len(coinsB), 'constant parts differ'))
    for b in shared:
        qs.append(member([((ma >> b) & 1) ^ ((mb >> b) & 1) for (ca, ma), (cb, mb) in zip(A, B)], rowsB, len(coinsB),
                         'dependence on shared variable %d differs' % b))
    return [q for q, l in qs], [l for q, l in qs]


def observable_stabilizers(gens, rec_forms, base, n):
    """gens: list of ((const, mask), bits-string over n qubits) of a symbolic stabilizer state; rec_forms: forms of the record.
    Returns a basis of the group elements whose sign is a function of the record and the shared variables only (the stabilizers
    of the state conditional on the record, hidden coins averaged out): list of (pauli text with sign folded out, const,
    shared mask, sorted record indices) meaning  sign(P) = const + <shared> + xor of those records."""
    from .pauli import P
    low = (1 << base) - 1
    # basis of the coin parts of the record, tracking which records and which (const, shared) they carry
    rbasis = {}
    for k, (c, m) in enumerate(rec_forms):
        v, comb, cc, sh = m >> base, 1 << k, c, m & low
        while v:
            t = v.bit_length() - 1
            if t in rbasis:
                bv, bcomb, bc, bsh = rbasis[t]
                v ^= bv
                comb ^= bcomb
                cc ^= bc
                sh ^= bsh
            else:
                rbasis[t] = (v, comb, cc, sh)
                break
    rows = []
    for (c, m), bits in gens:
        v, comb, cc, sh = m >> base, 0, c, m & low
        # reduce by the record basis (highest bits first)
        for t in sorted(rbasis, reverse=True):
            if (v >> t) & 1:
                bv, bcomb, bc, bsh = rbasis[t]
                v ^= bv
                comb ^= bcomb
                cc ^= bc
                sh ^= bsh
        rows.append([v, comb, cc, sh, P.from_str('+' + bits)])
    # eliminate the residual hidden-coin dependence among generators
    out = []
    piv = {}
    for v, comb, cc, sh, p in rows:
        while v:
            t = v.bit_length() - 1
            if t in piv:
                bv, bcomb, bc, bsh, bp = piv[t]
                v ^= bv
                comb ^= bcomb
                cc ^= bc
                sh ^= bsh
                p = p * bp
            else:
                piv[t] = (v, comb, cc, sh, p)
                break
        if v == 0:
            hs = p.hermitian_str()
            if hs is None:
                raise ValueError('non-Hermitian product of commuting generators')
            # the sign produced by multiplying the Pauli parts is part of the element's sign
            out.append((hs[1:].ljust(n, '_'), cc ^ (1 if hs[0] == '-' else 0), sh, [k for k in range(len(rec_forms)) if (comb >> k) & 1]))
    return out
