"""Shared machinery for ./check: builds, harness/runner processes, Coq builds, evidence, findings."""
import hashlib
import json
import os
import random
import re
import subprocess
import sys
import time

VERIF = os.path.dirname(os.path.dirname(os.path.abspath(__file__)))
REPO = os.environ.get('VERIF_REPO', '/repo')
BUILD = os.path.join(VERIF, '_build')
COQ = os.path.join(VERIF, 'coq')
NPROC = 16


class BuildError(Exception):
    pass


class Crash(Exception):
    def __init__(self, msg, stderr='', request=None):
        super().__init__(msg)
        self.stderr = stderr
        self.request = request


def sh(cmd, timeout=3600, cwd=None, inp=None, env=None):
    p = subprocess.run(cmd, shell=isinstance(cmd, str), cwd=cwd, input=inp, capture_output=True, timeout=timeout,
                       env=env)
    return p.returncode, p.stdout.decode('utf8', 'replace'), p.stderr.decode('utf8', 'replace')


# ---------------------------------------------------------------------------------------------
# implementation build (from /repo's working tree, guard on)
_built = {}


def build_impl(flavour='o1'):
    if flavour in _built:
        return _built[flavour]
    os.makedirs(BUILD, exist_ok=True)
    t = time.time()
    rc, out, err = sh(['make', '-j%d' % NPROC, '-C', os.path.join(VERIF, 'harness'), 'FLAVOUR=' + flavour,
                       'REPO=' + REPO], timeout=3000)
    if rc != 0:
        raise BuildError('implementation build (%s) failed:\n%s' % (flavour, (out + err)[-4000:]))
    _built[flavour] = os.path.join(BUILD, flavour)
    return _built[flavour]


class Svh:
    """Persistent harness process. request() returns the reply lines; a dead process raises Crash."""

    def __init__(self, flavour='o1', timeout=60, env=None):
        self.dir = build_impl(flavour)
        self.flavour = flavour
        self.timeout = timeout
        self.env = dict(os.environ)
        self.env['ASAN_OPTIONS'] = 'detect_leaks=0:abort_on_error=0:allocator_may_return_null=1'
        self.env['UBSAN_OPTIONS'] = 'print_stacktrace=1'
        if env:
            self.env.update(env)
        self.p = None
        self.nreq = 0

    def start(self):
        self.errpath = os.path.join(BUILD, 'svh_stderr_%d_%d.txt' % (os.getpid(), id(self)))
        self.errf = open(self.errpath, 'wb')
        self.p = subprocess.Popen([os.path.join(self.dir, 'svh')], stdin=subprocess.PIPE, stdout=subprocess.PIPE,
                                  stderr=self.errf, env=self.env)

    def close(self):
        if self.p is not None:
            try:
                self.p.stdin.close()
                self.p.wait(timeout=5)
            except Exception:
                self.p.kill()
            self.p = None
            try:
                self.errf.close()
                os.unlink(self.errpath)
            except Exception:
                pass

    def request(self, cmd, args=(), payload=''):
        if self.p is None or self.p.poll() is not None:
            self.start()
        msg = '#%s %s\n' % (cmd, ' '.join(str(a) for a in args))
        if payload:
            msg += payload if payload.endswith('\n') else payload + '\n'
        msg += '#.\n'
        self.nreq += 1
        try:
            self.p.stdin.write(msg.encode('latin1'))
            self.p.stdin.flush()
        except BrokenPipeError:
            return self._crashed(msg)
        lines = []
        import select
        # the limit is stretched by the machine's load (a busy machine must not turn a slow answer into an alarm)
        try:
            stretch = max(1.0, 2.0 * os.getloadavg()[0] / max(1, NPROC))
        except OSError:
            stretch = 1.0
        deadline = time.time() + self.timeout * stretch
        buf = b''
        fd = self.p.stdout.fileno()
        while True:
            nl = buf.find(b'\n')
            if nl >= 0:
                line = buf[:nl]
                buf = buf[nl + 1:]
                if line == b'#.':
                    if buf:
                        raise Crash('protocol desync', request=msg)
                    return [l.decode('latin1') for l in lines]
                lines.append(line)
                continue
            remaining = deadline - time.time()
            if remaining <= 0:
                self.p.kill()
                self.p.wait()
                self.p = None
                raise Crash('timeout after %ss' % self.timeout, request=msg)
            r, _, _ = select.select([fd], [], [], remaining)
            if not r:
                continue
            chunk = os.read(fd, 1 << 16)
            if not chunk:
                return self._crashed(msg)
            buf += chunk

    def _crashed(self, msg):
        try:
            self.p.wait(timeout=10)
        except Exception:
            self.p.kill()
        rc = self.p.returncode
        self.p = None
        self.errf.close()
        err = open(self.errpath, 'rb').read().decode('utf8', 'replace')
        raise Crash('harness died (exit %s)' % rc, stderr=err[-6000:], request=msg)


def run_stim(args, inp=b'', flavour='o1', timeout=120):
    """Run the stim CLI built from the working tree."""
    d = build_impl(flavour)
    env = dict(os.environ)
    env['ASAN_OPTIONS'] = 'detect_leaks=0'
    p = subprocess.run([os.path.join(d, 'stim')] + list(args), input=inp, capture_output=True, timeout=timeout, env=env)
    return p.returncode, p.stdout, p.stderr


# ---------------------------------------------------------------------------------------------
# Coq development
def write_if_changed(path, text):
    try:
        if open(path).read() == text:
            return False
    except FileNotFoundError:
        pass
    with open(path, 'w') as f:
        f.write(text)
    return True


def coq_makefile():
    files = sorted(f for f in os.listdir(COQ) if f.endswith('.v'))
    proj = '-R . SV\n' + '\n'.join(files) + '\n'
    changed = write_if_changed(os.path.join(COQ, '_CoqProject'), proj)
    if changed or not os.path.exists(os.path.join(COQ, 'Makefile')):
        rc, out, err = sh('coq_makefile -f _CoqProject -o Makefile', cwd=COQ)
        if rc != 0:
            raise BuildError('coq_makefile failed: ' + err)


def coq_make(targets, timeout=3000, keep_going=True):
    """Full .vo build of the given targets (and everything they depend on). Returns (ok, log)."""
    coq_makefile()
    cmd = ['timeout', str(timeout), 'make', '-j%d' % NPROC] + (['-k'] if keep_going else []) + list(targets)
    rc, out, err = sh(cmd, cwd=COQ, timeout=timeout + 60)
    return rc == 0, out + err


def coq_eval_file(path, timeout=1200):
    """coqc a scratch file (e.g. harness-written cases.v) against the built development; returns stdout."""
    rc, out, err = sh(['timeout', str(timeout), 'coqc', '-R', COQ, 'SV', path], timeout=timeout + 30)
    return rc, out, err


def theorems_in(vfile):
    txt = open(os.path.join(COQ, vfile)).read()
    return re.findall(r'^\s*(?:Theorem|Lemma|Corollary)\s+([A-Za-z0-9_\']+)', txt, re.M)


FORBIDDEN = re.compile(r'\b(Admitted|admit|Axiom|Axioms|Parameter|Parameters|Conjecture|Unset\s+Guard|bypass_check|'
                       r'Admit\s+Obligations|type-in-type|impredicative-set|native_compute)\b')


def forbidden_scan():
    """Scan the whole development for declarations the brief forbids. Returns list of (file, line, text)."""
    bad = []
    for f in sorted(os.listdir(COQ)):
        if not f.endswith('.v'):
            continue
        depth = 0
        for k, line in enumerate(open(os.path.join(COQ, f)), 1):
            code = re.sub(r'\(\*.*?\*\)', '', line)
            if FORBIDDEN.search(code):
                bad.append((f, k, line.strip()))
    return bad


def assumptions_from_log(log):
    """Extract 'Print Assumptions' results from a coqc log: list of blocks."""
    blocks = []
    cur = None
    for line in log.split('\n'):
        if line.startswith('Closed under the global context'):
            blocks.append('Closed under the global context')
        elif line.startswith('Axioms:'):
            cur = ['Axioms:']
        elif cur is not None:
            if line.strip() == '' or not (line.startswith(' ') or ':' in line):
                blocks.append(' '.join(cur))
                cur = None
            else:
                cur.append(line.strip())
    if cur:
        blocks.append(' '.join(cur))
    return blocks


CURRENT_TIER = 'quick'


def coqchk(prop_files):
    """thorough tier: re-check the compiled property files and everything they depend on with the independent checker;
    returns (ok, axioms listed, tail of the output)"""
    mods = ['SV.' + f.replace('.v', '') for f in prop_files]
    try:
        rc, out, err = sh(['coqchk', '-silent', '-o', '-R', '.', 'SV'] + mods, cwd=COQ, timeout=3000)
    except subprocess.TimeoutExpired:
        return False, ['coqchk timed out'], ''
    text = out + err
    axioms = []
    m = re.search(r'\* Axioms:\s*(.*?)\n\s*\n|\* Axioms:\s*(.*?)\* ', text, re.S)
    block = ''
    if '* Axioms:' in text:
        block = text.split('* Axioms:', 1)[1]
        for stop in ('* Constants/Inductives relying on', '* Constants', '* Inductives'):
            if stop in block:
                block = block.split(stop, 1)[0]
        axioms = [l.strip() for l in block.split('\n') if l.strip() and l.strip() != '<none>']
    return rc == 0, axioms, text[-1500:]


def prove(prop_files, extra_targets=()):
    """Builds the property files' .vo (incrementally). Returns dict with obligations/discharged/assumptions/log."""
    targets = [f.replace('.v', '.vo') for f in prop_files] + list(extra_targets)
    # force re-run of the property files themselves so Print Assumptions output is captured on every run
    for f in prop_files:
        for ext in ('.vo', '.glob', '.vos', '.vok'):
            try:
                os.unlink(os.path.join(COQ, f.replace('.v', ext)))
            except FileNotFoundError:
                pass
    ok, log = coq_make(targets)
    names = []
    for f in prop_files:
        names += theorems_in(f)
    discharged = 0
    failed = []
    for f in prop_files:
        if os.path.exists(os.path.join(COQ, f.replace('.v', '.vo'))):
            discharged += len(theorems_in(f))
        else:
            failed.append(f)
    bad = forbidden_scan()
    chk = None
    if CURRENT_TIER == 'thorough' and ok and not failed:
        cok, axioms, tail = coqchk(prop_files)
        chk = {'ok': cok, 'axioms': axioms}
        if not cok or axioms:
            ok = False
            log += '\ncoqchk: ok=%s axioms=%s\n%s' % (cok, axioms, tail)
    return {
        'coqchk': chk,
        'ok': ok and not failed and not bad,
        'obligations': len(names),
        'discharged': discharged if not bad else 0,
        'theorems': names,
        'failed_files': failed,
        'forbidden': bad,
        'assumptions': sorted(set(assumptions_from_log(log))),
        'log': log,
    }


def coq_error_summary(log):
    m = re.findall(r'File "\./([^"]+)", line (\d+)[^\n]*\n((?:.*\n){0,12})', log)
    out = []
    for f, l, body in m[:6]:
        out.append('%s:%s %s' % (f, l, ' '.join(body.split())[:400]))
    return out


# ---------------------------------------------------------------------------------------------
# extraction + model runner (OCaml)
def build_runner():
    """Extract.vo writes /verif/_build/extract/sv.ml(i); runner/main.ml is compiled against it."""
    os.makedirs(os.path.join(BUILD, 'extract'), exist_ok=True)
    ok, log = coq_make(['Extract.vo'])
    if not ok:
        raise BuildError('extraction failed:\n' + '\n'.join(coq_error_summary(log)) + log[-3000:])
    ex = os.path.join(BUILD, 'extract')
    src_ml = os.path.join(COQ, 'sv.ml')
    for ext in ('ml', 'mli'):
        s = os.path.join(COQ, 'sv.' + ext)
        if os.path.exists(s):
            txt = open(s).read()
            write_if_changed(os.path.join(ex, 'sv.' + ext), txt)
    main_src = os.path.join(VERIF, 'runner', 'main.ml')
    exe = os.path.join(BUILD, 'svm')
    stamp = [os.path.join(ex, 'sv.ml'), os.path.join(ex, 'sv.mli'), main_src]
    if os.path.exists(exe) and all(os.path.getmtime(exe) >= os.path.getmtime(s) for s in stamp):
        return exe
    write_if_changed(os.path.join(ex, 'main.ml'), open(main_src).read())
    rc, out, err = sh('ocamlfind ocamlopt -O3 -w -a -package str -linkpkg sv.mli sv.ml main.ml -o %s 2>&1 || '
                      'ocamlfind ocamlopt -w -a -package str -linkpkg sv.mli sv.ml main.ml -o %s' % (exe, exe),
                      cwd=ex, timeout=600)
    if rc != 0:
        raise BuildError('runner build failed:\n' + out + err)
    return exe


def run_svm(inp, timeout=1200):
    exe = build_runner()
    p = subprocess.run([exe], input=inp.encode('latin1'), capture_output=True, timeout=timeout)
    if p.returncode != 0:
        raise Crash('model runner failed (exit %d): %s' % (p.returncode, p.stderr.decode('utf8', 'replace')[-2000:]))
    return p.stdout.decode('latin1').split('\n')


def run_svm_sharded(lines, shards=14, timeout=6000):
    """Run one-line-in / one-line-out model commands on several runner processes (longest commands first, round robin);
    the answers come back in the order of `lines`."""
    from concurrent.futures import ThreadPoolExecutor
    if not lines:
        return []
    order = sorted(range(len(lines)), key=lambda k: -len(lines[k]))
    shards = max(1, min(shards, len(lines)))
    parts = [order[k::shards] for k in range(shards)]

    def one(idx):
        out = run_svm('\n'.join(lines[k] for k in idx) + '\n', timeout=timeout)
        return idx, out
    res = [None] * len(lines)
    with ThreadPoolExecutor(max_workers=shards) as ex:
        for idx, out in ex.map(one, parts):
            for k, o in zip(idx, out):
                res[k] = o
    return res


# ---------------------------------------------------------------------------------------------
# reporting
def seed_for(prop, seed):
    h = int(hashlib.sha256(prop.encode()).hexdigest()[:8], 16)
    return (seed * 1000003) ^ h


class Report:
    def __init__(self, prop, tier, seed):
        self.prop = prop
        self.tier = tier
        self.seed = seed
        self.t0 = time.time()
        self.violations = []          # dicts: entry_point, klass, input, detail
        self.broken = []              # broken obligations / correspondences without failing input
        self.cov = {'evaluations': 0, 'distinct_nontrivial': 0, 'samples': [], 'rule': ''}
        self.assumptions = []
        self.trusted = []
        self.proof = None
        self._distinct = set()
        self.notes = {}
        self.write_evidence = True

    def rng(self, salt=''):
        return random.Random(seed_for(self.prop + salt, self.seed))

    def count(self, case_key, nontrivial=True, n=1):
        self.cov['evaluations'] += n
        if nontrivial:
            h = hashlib.sha1(repr(case_key).encode()).digest()[:8]
            self._distinct.add(h)

    def sample(self, s, limit=6):
        if len(self.cov['samples']) < limit:
            self.cov['samples'].append(s)

    def violation(self, entry_point, klass, inp, detail, expected=None, observed=None):
        # a request that ran out of time is not evidence about any property except the parsers' totality (C07, C08): elsewhere it is
        # recorded in the evidence notes as inconclusive, never reported as a violation (a loaded machine must not raise alarms)
        if klass in ('crash', 'oob') and self.prop not in ('C07', 'C08') and str(detail).startswith('timeout after'):
            self.notes['inconclusive_timeouts'] = self.notes.get('inconclusive_timeouts', 0) + 1
            return
        self.violations.append({'entry_point': entry_point, 'class': klass, 'input': inp, 'detail': detail,
                                'expected_by_spec': expected, 'observed': observed})

    def broken_obligation(self, name, detail):
        self.broken.append({'theorem_or_suite': name, 'detail': detail})

    def set_proof(self, pr):
        self.proof = pr
        if pr.get('coqchk') is not None:
            self.notes['coqchk'] = 'independent checker (coqchk -o) on the property file and all its dependencies: ok=%s, axioms=%s' % (
                pr['coqchk']['ok'], pr['coqchk']['axioms'] or 'none')

    def finish(self, level='proof', checker_cmd='', explanation=''):
        known = load_findings()
        os.makedirs(os.path.join(VERIF, 'replays'), exist_ok=True)
        os.makedirs(os.path.join(VERIF, 'evidence'), exist_ok=True)
        exit_code = 0
        lines = []
        seen_known = set()
        nviol = 0
        if self.proof is not None and not self.proof['ok']:
            summary = coq_error_summary(self.proof['log'])
            self.broken_obligation(','.join(self.proof['failed_files']) or 'forbidden-declaration-scan',
                                   {'errors': summary, 'forbidden': self.proof['forbidden'], 'coqchk': self.proof.get('coqchk')})
        for v in self.violations:
            kf = match_finding(known, self.prop, v)
            if kf is not None:
                key = kf.get('id', kf.get('summary'))
                if key not in seen_known:
                    seen_known.add(key)
                    lines.append('KNOWN-FINDING: property=%s %s' % (self.prop, kf['summary']))
                continue
            nviol += 1
            h = hashlib.sha1(json.dumps(v, sort_keys=True, default=str).encode()).hexdigest()[:12]
            path = os.path.join(VERIF, 'replays', '%s-%s.json' % (self.prop, h))
            with open(path, 'w') as f:
                json.dump({'property': self.prop, 'tier': self.tier, 'seed': self.seed, 'kind': 'failing-input',
                           'entry_point': v['entry_point'], 'class': v['class'], 'input': v['input'],
                           'expected_by_spec': v['expected_by_spec'], 'observed': v['observed'],
                           'detail': v['detail'],
                           'rerun': './check %s --replay %s' % (self.prop, path)}, f, indent=1, default=str)
            if nviol <= 5:
                lines.append('VIOLATION property=%s replay=%s' % (self.prop, path))
            exit_code = 1
        if self.broken and nviol == 0:
            # a proof obligation or correspondence no longer checks and no failing input was found
            h = hashlib.sha1(json.dumps(self.broken, sort_keys=True, default=str).encode()).hexdigest()[:12]
            path = os.path.join(VERIF, 'replays', '%s-broken-%s.json' % (self.prop, h))
            with open(path, 'w') as f:
                json.dump({'property': self.prop, 'tier': self.tier, 'seed': self.seed, 'kind': 'broken-obligation',
                           'broken': self.broken,
                           'note': 'the named theorem/correspondence no longer checks against the current source; '
                                   'the search for a concrete failing input found none'}, f, indent=1, default=str)
            lines.append('VIOLATION property=%s replay=%s no-failing-input-found' % (self.prop, path))
            nviol += 1
            exit_code = 1
        cov = dict(self.cov)
        cov['distinct_nontrivial'] = len(self._distinct)
        if self.proof is not None:
            if self.proof['discharged'] >= 1:
                cov['obligations'] = self.proof['obligations']
                cov['discharged'] = self.proof['discharged']
            else:   # keep the file schema-valid when nothing could be discharged (the run reports a violation)
                cov['obligations_total'] = self.proof['obligations']
                cov['obligations_discharged'] = 0
            cov['theorems'] = self.proof['theorems']
            cov['print_assumptions'] = self.proof['assumptions']
        cov['checker_cmd'] = checker_cmd or ('make -C /verif/coq (coqc 8.16.1, full .vo build) + ./check %s %s' %
                                             (self.prop, self.tier))
        cov['trusted_base'] = self.trusted
        if explanation:
            cov['explanation'] = explanation
        cov.update(self.notes)
        ev = {'property_id': self.prop, 'tier': self.tier, 'seed': self.seed, 'level': level, 'coverage': cov,
              'assumptions': self.assumptions, 'wall_s': round(time.time() - self.t0, 2), 'violations': nviol,
              'known_findings_seen': sorted(seen_known)}
        if self.write_evidence:
            with open(os.path.join(VERIF, 'evidence', self.prop + '.json'), 'w') as f:
                json.dump(ev, f, indent=1, default=str)
        for l in lines:
            print(l)
        print('%s %s: %d evaluations, %d distinct non-trivial, obligations %s/%s, %d violation(s), %.1fs' % (
            self.prop, self.tier, cov['evaluations'], cov['distinct_nontrivial'], cov.get('discharged', '-'),
            cov.get('obligations', '-'), nviol, time.time() - self.t0))
        sys.stdout.flush()
        return exit_code


def load_findings():
    try:
        return json.load(open(os.path.join(VERIF, 'known_findings.json')))['findings']
    except FileNotFoundError:
        return []


def canon_input(x):
    if isinstance(x, str):
        return ' '.join(x.split())
    return json.dumps(x, sort_keys=True, default=str)


def match_finding(known, prop, v):
    for k in known:
        if k.get('status') != 'known' or k['property'] != prop:
            continue
        if k['entry_point'] != v['entry_point'] or k['class'] != v['class']:
            continue
        if 'input' in k and canon_input(k['input']) == canon_input(v['input']):
            return k
        if 'input_regex' in k and re.fullmatch(k['input_regex'], canon_input(v['input'])):
            return k
    return None
