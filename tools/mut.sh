#!/bin/bash
# usage: mut.sh PROP file 'sed-expr'
cd /repo
sed -i "$3" "$2"
if git diff --quiet; then echo "MUTATION DID NOT APPLY"; exit 1; fi
cd /verif && VERIF_NO_EVIDENCE=1 timeout 1800 ./check $1 quick 2>&1 | tail -2 | cut -c1-200
git -C /repo checkout -- .
rm -f /verif/replays/*
