#!/usr/bin/env python3
"""store_seed.py <seed_root> <confirm_log> <suffix> id... : copy confirmed seeds into /verif/seeded/<id><suffix>/"""
import json, os, shutil, sys
root, log, suffix = sys.argv[1:4]
lines = open(log).read().split('\n')
for sid in sys.argv[4:]:
    line = next((l for l in lines if l.startswith(sid + ' demo_before=')), None)
    if not line or 'demo_before=0' not in line or 'demo_after=0' in line or 'PASSED' not in line or 'FAILED' in line:
        print(sid, 'NOT CONFIRMED:', line); continue
    src = os.path.join(root, sid)
    dst = os.path.join(os.path.dirname(os.path.dirname(os.path.abspath(__file__))), 'seeded', sid + suffix)
    os.makedirs(dst, exist_ok=True)
    for f in ('patch.diff', 'demo.sh', 'demo.cc', 'meta.json'):
        if os.path.exists(os.path.join(src, f)):
            shutil.copy(os.path.join(src, f), os.path.join(dst, f))
    m = json.load(open(os.path.join(dst, 'meta.json')))
    m['confirmed'] = ('scratch worktree /tmp/confirm of /repo, script tools/confirm_seeds.sh applied patch.diff, rebuilt stim/libstim/stim_test, ran '
                      '(ulimit -s unlimited; stim_test --gtest_brief=1) and the demonstration with and without the change: ' + line)
    m['round'] = 2
    json.dump(m, open(os.path.join(dst, 'meta.json'), 'w'), indent=1)
    print(sid, 'stored in', dst)
