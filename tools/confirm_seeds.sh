#!/bin/bash
# usage: confirm_seeds.sh <seed_root> id...   : confirms seeds in a scratch worktree of /repo HEAD
ROOT=$1; shift
WT=/tmp/confirm
LOG=/tmp/confirm_logs
if [ ! -d $WT ]; then
  git -C /repo worktree add -f $WT HEAD > /dev/null 2>&1
  (cd $WT && cmake -G Ninja -B _build -DCMAKE_BUILD_TYPE=RelWithDebInfo -DGTest_DIR=/root/miniconda/lib/cmake/GTest > /dev/null 2>&1)
fi
cd $WT
git checkout -q -- . 
build() { cmake --build _build -j14 --target $* 2>&1 | grep -E "error|FAILED" | head -5; }
run_demo() {  # $1 = seed dir ; returns demo exit code
  local d=$1
  if [ -f $d/demo.sh ]; then
    sed "s#/tmp/wt_C[0-9]*#$WT#g; s#/tmp/w2_C[0-9]*#$WT#g; s#/tmp/w3_C[0-9]*#$WT#g; s#/tmp/w4_C[0-9]*#$WT#g; s#/tmp/seed4/C[0-9]*#$d#g; s#/tmp/seed3/C[0-9]*#$d#g; s#/tmp/seed_out/C[0-9]*#$d#g; s#/tmp/seed2/C[0-9]*#$d#g" $d/demo.sh > /tmp/confirm_demo.sh
    bash /tmp/confirm_demo.sh $WT/_build/out/stim > $LOG/demo_out.txt 2>&1; return $?
  else
    g++ -std=c++20 -O1 -march=native -I $WT/src $d/demo.cc $WT/_build/out/libstim.a -lpthread -o /tmp/confirm_demo_bin 2> $LOG/demo_build.txt || return 99
    /tmp/confirm_demo_bin > $LOG/demo_out.txt 2>&1; return $?
  fi
}
for id in "$@"; do
  d=$ROOT/$id
  echo "=== $id" 
  if ! git apply --check $d/patch.diff 2>/dev/null; then echo "$id PATCH-DOES-NOT-APPLY"; continue; fi
  build stim libstim
  run_demo $d; before=$?
  git apply $d/patch.diff
  build stim libstim stim_test
  (ulimit -s unlimited; ./_build/out/stim_test --gtest_brief=1 2>&1 | tail -3) > $LOG/tests_$id.txt
  tests=$(grep -E "PASSED|FAILED" $LOG/tests_$id.txt | tr '\n' ' ')
  run_demo $d; after=$?
  cp $LOG/demo_out.txt $LOG/demo_after_$id.txt
  git checkout -q -- .
  echo "$id demo_before=$before demo_after=$after tests: $tests"
done
git checkout -q -- .
build stim libstim
echo DONE
